#!/usr/bin/env python3
"""Regenerates /verif/MANIFEST.json from the table below (kept in one place so it stays consistent)."""
import json, os, subprocess
ROOT = os.path.dirname(os.path.dirname(os.path.abspath(__file__)))

TECH = {
 'C01': 'runtime monitor: reference validity predicate (hi+lo==hi) on every result of per-operation sweeps and random operation chains (VM), release + overflow-checking builds',
 'C02': 'runtime monitor with exact big-integer/dyadic oracle over structured f64 pairs',
 'C03': 'runtime monitor with exact dyadic oracle, cancellation sweep and hill-climbing stress search on err/bound',
 'C04': 'runtime monitor with exact dyadic oracle and hill-climbing stress search; exact sub-claims as value equalities',
 'C05': 'runtime monitor with exact cross-multiplied quotient oracle and hill-climbing stress search',
 'C06': 'runtime monitor: exact-value comparison oracle over a boundary-set Cartesian product incl. non-finite values (from_raw hook)',
 'C07': 'runtime monitor: IEEE a+b==a reference predicate over a structured exponent x mantissa x threshold sweep',
 'C08': 'runtime monitor with exact integer-function oracle over the case table of the five rounding functions',
 'C09': 'runtime monitor with exact integer oracle; exhaustive for 8/16-bit types, boundary-dense for wider ones',
 'C10': 'differential runtime monitor: every spelling / trait entry point vs the reference spelling, bit for bit',
 'C11': 'differential runtime monitor across three builds (std, no_std, no_std+software libm) + Miri replay + exact-fma oracle on the hooked fma',
 'C12': 'runtime monitor + offline mpmath checker (600-bit recomputation of all constants; angle conversions judged on an event log)',
 'C13': 'runtime monitor: exact squaring/cubing oracle, in-process powi sub-claims under a panic monitor (release + overflow-checking), offline mpmath checker for powi accuracy',
 'C14': 'event-log monitor judged offline by mpmath (400 bits) + in-process panic/saturation/exact-point monitor; table-entry hook coverage required',
 'C15': 'event-log monitor judged offline by mpmath + in-process exact points, domain errors, quotient identities, panic monitor',
 'C16': 'event-log monitor judged offline by mpmath + in-process sin_cos bit-identity and invalid-argument monitor; quadrant hook coverage required',
 'C17': 'event-log monitor judged offline by mpmath + in-process axis-case/exact-point/domain monitor',
 'C18': 'event-log monitor judged offline by mpmath + in-process exact points, domain errors, panic monitor (release + overflow-checking)',
 'C19': 'runtime monitor with exact big-integer truncated-quotient oracle (near-integer proviso decided exactly)',
 'C20': 'runtime monitor: std f64 formatting/parsing as format oracle; recording Serializer and seq/map Deserializers as serde oracle',
}
DONE = os.environ.get('DONE', '').split() or sorted(TECH)
HOOK_COMMITS = subprocess.run(['git', '-C', '/repo', 'log', '--format=%H %s'], capture_output=True, text=True).stdout.splitlines()
hooks = [l.split()[0] for l in HOOK_COMMITS if l.split(' ', 1)[1].startswith('verif hooks')]

checks = []
for p in sorted(TECH):
    if p not in DONE:
        continue
    checks.append({
        'property_id': p,
        'quick_cmd': './check run %s --tier quick' % p,
        'thorough_cmd': './check run %s --tier thorough' % p,
        'evidence_file': '/verif/evidence/%s.json' % p,
        'replay_cmd_template': './check replay {path}',
        'engine': 'tfmon',
        'level_claimed': {
            'category': 'exploration',
            'text': 'Held on every execution observed: the real library code is run on large boundary-dense seeded workloads and every call is judged by an oracle independent of the library (exact integer/dyadic arithmetic, 400-bit mpmath, or bitwise differential comparison). This is evidence about the inputs explored (counts, classes, worst err/bound ratios are in the evidence file), not a proof over all inputs; it is the strongest statement runtime monitoring can make for a property quantified over 2^128 operand pairs.',
            'design_ref': 'DESIGN.md section 3 (%s), section 2.4 (oracles)' % p,
        },
        'level_note': 'Trusted base: hardware IEEE-754 arithmetic, the harness BigInt/dyadic oracle (unit-tested in setup), mpmath for transcendental references, rustc/cargo. Sampling-based: inputs outside the generated classes are not covered.',
        'technique': TECH[p],
    })
manifest = {
    'version': 1,
    'setup_cmd': './check setup',
    'hooks': {
        'guard': 'cargo feature verif_hooks (twofloat/Cargo.toml), off by default',
        'enable': 'the harness crate /verif/harness depends on twofloat = { path = "/repo", features = ["verif_hooks", ...] }; ./check builds it from the working tree on every run',
        'baseline_off_cmd': 'cd /repo && cargo test --workspace --no-fail-fast --offline',
        'source_commits': hooks,
        'add_only': True,
    },
    'engines': [
        {'name': 'tfmon', 'path': '/verif/harness', 'serves_properties': sorted(TECH), 'kind_free_text': 'Rust harness linked against /repo: seeded structured workload generators, panic monitor, exact BigInt/dyadic oracle, event-log emitter'},
        {'name': 'mpcheck', 'path': '/verif/oracle/mpcheck.py', 'serves_properties': ['C12', 'C13', 'C14', 'C15', 'C16', 'C17', 'C18'], 'kind_free_text': 'offline checker over event logs, mpmath 400/1600 bits'},
        {'name': 'miri', 'path': 'cargo +nightly miri run (harness)', 'serves_properties': ['C11'], 'kind_free_text': 'independent IEEE-754 interpreter replaying the seeded workload (soft-float fma, perturbed unspecified-precision intrinsics)'},
    ],
    'checks': checks,
    'not_applicable': [{'property_id': p, 'reason': 'monitor under construction in this session; not claimed until its check is registered'} for p in sorted(TECH) if p not in DONE],
    'notes': 'All checks: ./check run <ID> --tier quick|thorough (cwd /verif); VERIF_SEED seeds the random part of every workload. Exit 0 = held on everything explored (KNOWN-FINDING lines possible), 1 = VIOLATION line printed with a replay file, 2 = INCONCLUSIVE (build failure, oracle undecidable, hook coverage incomplete). Known findings: /verif/known_findings.json.',
}
json.dump(manifest, open(os.path.join(ROOT, 'MANIFEST.json'), 'w'), indent=1)
print('checks:', [c['property_id'] for c in checks])
