#!/usr/bin/env python3
"""Apply each confirmed seeded change to /repo, run the property's check, undo, record the verdict.
usage: tools/score_mutants.py [--tier quick|thorough] [ids...]"""
import json, os, subprocess, sys, time
ROOT = os.path.dirname(os.path.dirname(os.path.abspath(__file__)))
args = sys.argv[1:]
tier = 'quick'
if '--tier' in args:
    i = args.index('--tier'); tier = args[i + 1]; del args[i:i + 2]
ids = args or sorted(os.listdir(os.path.join(ROOT, 'seeded')))
assert subprocess.run(['git', '-C', '/repo', 'status', '--porcelain', '--untracked-files=no'], capture_output=True, text=True).stdout == '', '/repo not clean'
out = []
for mid in ids:
    d = os.path.join(ROOT, 'seeded', mid)
    prop = mid.split('-')[0]
    patch = os.path.join(d, 'patch.diff')
    if not os.path.exists(patch):
        continue
    r = subprocess.run(['git', '-C', '/repo', 'apply', patch], capture_output=True, text=True)
    if r.returncode != 0:
        print(mid, 'patch does not apply'); continue
    t0 = time.time()
    try:
        p = subprocess.run(['./check', 'run', prop, '--tier', tier], cwd=ROOT, capture_output=True, text=True, timeout=3600)
        lines = p.stdout.splitlines()
        viol = [l for l in lines if l.startswith('VIOLATION')]
        detail = [l for l in lines if l.startswith('  op=')]
        res = {'id': mid, 'property': prop, 'tier': tier, 'exit': p.returncode, 'caught': p.returncode == 1 and bool(viol), 'violation_lines': len(viol),
               'first_detail': (detail[0][:400] if detail else ''), 'summary': lines[-1] if lines else '', 'wall_s': round(time.time() - t0, 1)}
    finally:
        subprocess.run(['git', '-C', '/repo', 'checkout', '--', '.'], check=True)
    json.dump(res, open(os.path.join(d, 'score_%s.json' % tier), 'w'), indent=1)
    print(mid, 'CAUGHT' if res['caught'] else 'MISSED(exit %d)' % res['exit'], res['wall_s'], res['first_detail'][:160], flush=True)
