#!/usr/bin/env python3
"""Merge confirm.json / score_*.json into each seeded/<id>/meta.json and print the DESIGN.md table."""
import json, os, glob
ROOT = os.path.dirname(os.path.dirname(os.path.abspath(__file__)))
rows = []
for d in sorted(glob.glob(os.path.join(ROOT, 'seeded', 'C*-*'))):
    mid = os.path.basename(d)
    meta = json.load(open(os.path.join(d, 'meta.json')))
    meta['id'] = mid
    meta['breaks_property'] = mid.split('-')[0]
    meta['origin'] = 'independent sub-agent (round %d), given only the property text and a scratch worktree of /repo' % (1 if mid[-1] in 'AB' else 2)
    cf = os.path.join(d, 'confirm.json')
    if os.path.exists(cf):
        c = json.load(open(cf))
        meta['confirmed_in_scratch_worktree'] = c
        meta['what_was_run'] = [
            'tools/confirm_mutant.sh %s  (scratch worktree of /repo HEAD %s: demo passes clean, patch applies, builds with default / no_std+math_funcs / serde, repository suite passes with patch (%s pass/fail), demo fails with patch; flags: %s)' % (mid, c.get('repo_head'), c.get('suite_pass_fail'), c.get('demo_flags') or 'default'),
        ]
    checks = {}
    for sf in sorted(glob.glob(os.path.join(d, 'score_*.json'))):
        s = json.load(open(sf))
        checks[s['tier']] = {'caught': s['caught'], 'exit': s['exit'], 'first_detail': s['first_detail'], 'wall_s': s['wall_s']}
        meta.setdefault('what_was_run', []).append('tools/score_mutants.py --tier %s %s  (git -C /repo apply patch.diff; ./check run %s --tier %s; git -C /repo checkout -- .) -> exit %d' % (s['tier'], mid, s['property'], s['tier'], s['exit']))
    meta['verif_checks'] = checks
    json.dump(meta, open(os.path.join(d, 'meta.json'), 'w'), indent=1)
    q = checks.get('quick', {})
    det = q.get('first_detail', '')
    op = det.split('op=')[1].split()[0] if 'op=' in det else ''
    kind = det.split('kind=')[1].split()[0] if 'kind=' in det else ''
    cfg = det.split('cfg=')[1].split()[0] if 'cfg=' in det else ''
    summ = (meta.get('summary') or '').replace('\n', ' ').replace('|', '/')
    rows.append('| %s | %s | %s | %s |' % (mid, summ[:150] + ('...' if len(summ) > 150 else ''), 'quick' if q.get('caught') else ('thorough' if checks.get('thorough', {}).get('caught') else 'MISSED'), '%s / %s / %s' % (op, kind, cfg)))
print('| id | change (abridged) | caught by `./check run <prop>` at tier | first violation reported (op / kind / cfg) |')
print('|---|---|---|---|')
print('\n'.join(rows))
