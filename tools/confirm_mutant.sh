#!/bin/bash
# Confirm one seeded change in a scratch worktree of /repo HEAD:
#   demo passes without the patch, patch applies, crate builds in 3 feature configs,
#   the repository suite passes with the patch, demo fails with the patch.
# usage: tools/confirm_mutant.sh <id>   (writes seeded/<id>/confirm.json)
id=$1
S=/verif/seeded/$id
W=/tmp/sw/$id
mkdir -p /tmp/sw
git -C /repo worktree remove --force $W 2>/dev/null
git -C /repo worktree add -q --detach $W HEAD || exit 9
cd $W
cmd=$(python3 -c "import json;print(json.load(open('$S/meta.json'))['demo_cmd'])")
t=$(echo "$cmd" | grep -o -- '--test [a-z0-9_]*' | head -1 | cut -d' ' -f2)
first=$(echo "$cmd" | grep -o 'cargo test[^#&;]*' | head -1)
flags=$(echo "$first" | grep -oE -- '--no-default-features|--release|--features[ =][A-Za-z_,]+' | tr '\n' ' ')
rf=$(echo "$cmd" | grep -o 'RUSTFLAGS="[^"]*"' | head -1 | sed 's/RUSTFLAGS="//; s/"$//')
if [ -n "$rf" ]; then export RUSTFLAGS="$rf"; export CARGO_TARGET_DIR=$W/target-rf; fi
cp $S/demo.rs tests/$t.rs
cargo test --offline $flags --test $t > /tmp/sw/$id.clean.log 2>&1; clean=$?
applies=0; git apply $S/patch.diff 2>/tmp/sw/$id.apply.log || applies=1
if [ $applies = 0 ]; then
  cargo test --offline $flags --test $t > /tmp/sw/$id.patched.log 2>&1; patched=$?
  rm tests/$t.rs
  unset RUSTFLAGS; unset CARGO_TARGET_DIR
  cargo build --offline --no-default-features --features math_funcs >/dev/null 2>&1; b1=$?
  cargo build --offline --features serde >/dev/null 2>&1; b2=$?
  cargo test --workspace --no-fail-fast --offline > /tmp/sw/$id.suite.log 2>&1; suite=$?
  npass=$(grep -E "^test result" /tmp/sw/$id.suite.log | awk '{p+=$4; f+=$6} END {print p"/"f}')
else patched=-1; b1=-1; b2=-1; suite=-1; npass=""; fi
cd /verif
python3 - <<PY
import json
json.dump({"id":"$id","patch_applies_to_head":$applies==0,"demo_passes_without_patch":$clean==0,"demo_fails_with_patch":$patched not in (0,-1),"builds_nostd":$b1==0,"builds_serde":$b2==0,"suite_passes_with_patch":$suite==0,"suite_pass_fail":"$npass","demo_test":"$t","demo_flags":"$flags $rf","repo_head":"$(git -C /repo rev-parse --short HEAD)"},open("$S/confirm.json","w"),indent=1)
PY
git -C /repo worktree remove --force $W
cat $S/confirm.json | tr '\n' ' '; echo
