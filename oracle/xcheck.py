"""Independent re-check (fractions.Fraction) of a sample of the Rust exact oracle's verdicts.
A disagreement is a harness error, never a violation."""
import struct
from fractions import Fraction


def fr(word):
    x = struct.unpack('<d', struct.pack('<Q', int(word, 16)))[0]
    return Fraction(x)


def target(op, v):
    """exact target of the 'rel' form, from the operand words"""
    base = op.split('/')[0]
    pairing = op.split('/')[1] if '/' in op else 'TF,TF'
    if op == 'sum_step':
        base, pairing = 'add', 'TF,TF'
    if pairing == 'TF,TF':
        a, b = v[0] + v[1], v[2] + v[3]
    elif pairing in ('TF,f64',):
        a, b = v[0] + v[1], v[2]
    elif pairing == 'f64,TF':
        # ins are (a.hi, a.lo, f): the f64 is the LEFT operand
        a, b = v[2], v[0] + v[1]
        if base in ('add', 'mul'):
            a, b = b, a
    else:
        return None
    base = base.replace('_assign', '')
    if base == 'add':
        return a + b
    if base == 'sub':
        return a - b
    if base == 'mul':
        return a * b
    return None


def judge(lines):
    agree = disagree = skipped = 0
    bad = []
    for ln in lines:
        form, op, p, q, ins, outs, ok = ln.split()
        p, q, ok = int(p), int(q), ok == '1'
        v = [fr(w) for w in ins.split(',')]
        r = sum(fr(w) for w in outs.split(','))
        if form == 'rel':
            t = target(op, v)
            if t is None:
                skipped += 1
                continue
            mine = abs(r - t) * Fraction(2) ** q <= p * abs(t)
        elif form == 'quot':
            if op.startswith('div/f64,TF') or op == 'recip':
                a, b = v[0], v[1] + v[2]
            elif op.endswith('TF,TF'):
                a, b = v[0] + v[1], v[2] + v[3]
            else:
                a, b = v[0] + v[1], v[2]
            mine = abs(r * b - a) * Fraction(2) ** q <= p * abs(a)
        else:
            skipped += 1
            continue
        if mine == ok:
            agree += 1
        else:
            disagree += 1
            bad.append(ln)
    return {'agree': agree, 'disagree': disagree, 'skipped': skipped, 'examples': bad[:3]}
