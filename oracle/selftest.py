"""Self-test of the mp checker: known values, a deliberately wrong event, constant rounding."""
import struct
import sys
import os
sys.path.insert(0, os.path.dirname(os.path.abspath(__file__)))
import mpcheck
from mpmath import mp, mpf


def w(x):
    return '%016x' % struct.unpack('<Q', struct.pack('<d', x))[0]


def dd(x):
    """correctly rounded double-double of an mpf"""
    hi = mpcheck.rn_f64(x)
    lo = mpcheck.rn_f64(x - mpf(hi))
    return hi, lo


def ev(op, ins, outs):
    return 'E %s %d %s %d %s' % (op, len(ins), ' '.join(w(x) for x in ins), len(outs), ' '.join(w(x) for x in outs))


lines = []
import mpmath
cases = [('exp', 1.5, mpmath.exp), ('ln', 3.25, mpmath.log), ('sin', 0.75, mpmath.sin), ('cos', 2.0, mpmath.cos),
         ('atan', -7.5, mpmath.atan), ('sinh', 0.01, mpmath.sinh), ('log2', 10.0, lambda v: mpmath.log(v, 2))]
with mp.workprec(600):
    for op, x, f in cases:
        hi, lo = dd(f(mpf(x)))
        lines.append(ev(op, [x, 0.0], [hi, lo]))
    # wrong by one ulp of the high word: must be flagged
    hi, lo = dd(mpmath.exp(mpf(2.5)))
    lines.append(ev('exp', [2.5, 0.0], [hi * (1 + 2.0 ** -52), lo]))
    hi, lo = dd(mp.pi)
    lines.append('K PI %s %s' % (w(hi), w(lo)))
    lines.append('K E %s %s' % (w(2.718281828459045), w(0.0)))  # not correctly rounded low word
lines.append('END %d' % len(lines))
r = mpcheck.judge_stream('SELFTEST', lines)
ok = r['judged'] == 10 and r['violations_total'] == 2 and {(v['op'], v['kind']) for v in r['violations']} == {('exp', 'accuracy'), ('const', 'not_correctly_rounded')}
print('mpcheck selftest:', 'ok' if ok else 'FAILED', {k: r[k] for k in ('judged', 'violations_total')})
sys.exit(0 if ok else 1)
