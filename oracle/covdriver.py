"""Source-based coverage of /repo/src reached by a property's workload (thorough tier evidence).
Builds the harness with -Cinstrument-coverage on the nightly toolchain, runs the quick workload
at small scale, and reports per-file region coverage plus the functions never entered."""
import glob
import json
import os
import shutil
import subprocess

BIN = os.path.expanduser('~/.rustup/toolchains/nightly-x86_64-unknown-linux-gnu/lib/rustlib/x86_64-unknown-linux-gnu/bin')


def measure(drv, prop, seed, has_mp):
    tdir = os.path.join(drv.HARNESS, 'target', 'cov')
    env = dict(drv.ENV, RUSTFLAGS='-Cinstrument-coverage')
    p = subprocess.run(['cargo', '+nightly', 'build', '--offline', '--release', '--target-dir', tdir], cwd=drv.HARNESS, env=env,
                       stdout=subprocess.PIPE, stderr=subprocess.STDOUT, text=True)
    if p.returncode != 0:
        return {'error': 'coverage build failed: ' + p.stdout[-300:]}
    binp = os.path.join(tdir, 'release', 'tfmon')
    prof = os.path.join(drv.WORK, 'cov-%s-%d' % (prop, os.getpid()))
    shutil.rmtree(prof, ignore_errors=True)
    os.makedirs(prof)
    renv = dict(os.environ, LLVM_PROFILE_FILE=os.path.join(prof, 'p-%p.profraw'))
    if prop == 'C11':
        subprocess.run([binp, 'stream', prop, '--seed', str(seed), '--events', '200000'], env=renv, stdout=subprocess.DEVNULL)
    subprocess.run([binp, 'run', prop, '--tier', 'quick', '--seed', str(seed), '--threads', '4', '--scale', '0.05', '--out', os.path.join(prof, 'o.json')], env=renv, stdout=subprocess.DEVNULL, stderr=subprocess.DEVNULL)
    if has_mp:
        subprocess.run([binp, 'emit', prop, '--tier', 'quick', '--seed', str(seed), '--scale', '0.05'], env=renv, stdout=subprocess.DEVNULL)
    raws = glob.glob(os.path.join(prof, '*.profraw'))
    if not raws:
        return {'error': 'no profile data written'}
    pd = os.path.join(prof, 'm.profdata')
    subprocess.run([os.path.join(BIN, 'llvm-profdata'), 'merge', '-sparse', '-o', pd] + raws, check=True)
    ex = subprocess.run([os.path.join(BIN, 'llvm-cov'), 'export', '-format=text', '-instr-profile', pd, binp, '-ignore-filename-regex', r'(\.cargo|rustc|/verif/)'],
                        stdout=subprocess.PIPE, stderr=subprocess.DEVNULL, text=True)
    shutil.rmtree(prof, ignore_errors=True)
    try:
        data = json.loads(ex.stdout)['data'][0]
    except Exception as e:
        return {'error': 'llvm-cov export failed: %s' % e}
    files = {}
    for f in data['files']:
        name = f['filename']
        if not name.startswith('/repo/src/'):
            continue
        s = f['summary']
        files[name[len('/repo/'):]] = {'regions': s['regions']['count'], 'regions_covered': s['regions']['covered'], 'lines': s['lines']['count'], 'lines_covered': s['lines']['covered']}
    # keep the files the property is anchored in (properties.jsonl), the rest is summed up
    anchored = set()
    try:
        for ln in open(os.path.join(drv.ROOT, 'properties.jsonl')):
            pr = json.loads(ln)
            if pr['id'] == prop:
                anchored = set(pr['anchors']['files'])
    except Exception:
        pass
    other = {'regions': 0, 'regions_covered': 0}
    for k in list(files):
        if anchored and k not in anchored:
            other['regions'] += files[k]['regions']
            other['regions_covered'] += files[k]['regions_covered']
            del files[k]
    files['(other src files)'] = other
    never = []
    for fn in data.get('functions', []):
        if fn['count'] == 0 and any(x.startswith('/repo/src/') for x in fn['filenames']):
            never.append(fn['name'])
    return {'files': files, 'functions_never_entered': len(never), 'note': 'measured on the quick workload at 5% size in the std configuration; the thorough workload is a superset'}
