"""C11 driver: fma-hook monitor in every configuration + stream differential + Miri replay."""
import json
import os
import subprocess
import time
from concurrent.futures import ThreadPoolExecutor


def _stream(cmd):
    p = subprocess.run(cmd, stdout=subprocess.PIPE, stderr=subprocess.PIPE, text=True)
    blocks = {}
    events = {}
    end = None
    for ln in p.stdout.splitlines():
        if ln.startswith('B '):
            _, b, h = ln.split()
            blocks[int(b)] = h
        elif ln.startswith('V '):
            q = ln.split()
            events[int(q[1])] = ln
        elif ln.startswith('END'):
            end = ln
    return p.returncode, blocks, events, end, p.stderr[-400:]


def run(drv, prop, tier, seed, scale, bins, t0):
    log = drv.log
    inconclusive = []
    all_viol = []
    runs = {}
    # (1) the hooked internal fma against the exactly rounded result, in every configuration
    for cfg in ('std', 'nostd', 'soft', 'fma', 'nostd_fma'):
        j, err = drv.run_inproc(bins[cfg], prop, tier, seed, scale if cfg == 'std' else scale * 0.5, cfg)
        if j is None:
            inconclusive.append('%s: %s' % (cfg, err))
            continue
        runs[cfg] = j
        for v in j['violations']:
            v.update(source='inproc', tier=tier, seed=seed, scale=scale)
        all_viol += j['violations']

    # (2) stream differential: same seeded workload, three builds, block hashes diffed
    nsh = 16
    per = int((300_000 if tier == 'quick' else 30_000_000) * scale)
    stream_stats = {'shards': nsh, 'events_per_shard': per, 'blocks_compared': 0, 'configs': ['std', 'nostd', 'soft', 'fma', 'nostd_fma'], 'mismatching_blocks': 0}

    def job(cfg, sh, extra=()):
        return _stream([bins[cfg], 'stream', prop, '--seed', str(seed), '--shard', str(sh), '--events', str(per)] + list(extra))

    with ThreadPoolExecutor(16) as ex:
        futs = {(cfg, sh): ex.submit(job, cfg, sh) for cfg in ('std', 'nostd', 'soft', 'fma', 'nostd_fma') for sh in range(nsh)}
        res = {k: f.result() for k, f in futs.items()}
    for sh in range(nsh):
        ref = res[('std', sh)]
        if ref[0] != 0 or ref[3] is None:
            inconclusive.append('stream std shard %d failed: %s' % (sh, ref[4]))
            continue
        for cfg in ('nostd', 'soft', 'fma', 'nostd_fma'):
            oth = res[(cfg, sh)]
            if oth[0] != 0 or oth[3] is None:
                inconclusive.append('stream %s shard %d failed: %s' % (cfg, sh, oth[4]))
                continue
            stream_stats['blocks_compared'] += len(ref[1])
            bad = sorted(b for b in ref[1] if oth[1].get(b) != ref[1][b])
            if bad:
                stream_stats['mismatching_blocks'] += len(bad)
                b = bad[0]
                r1 = job('std', sh, ['--log', '%d,%d' % (b, b)])
                r2 = job(cfg, sh, ['--log', '%d,%d' % (b, b)])
                first = None
                for e in sorted(r1[2]):
                    if r2[2].get(e) != r1[2][e]:
                        first = e
                        break
                if first is None:
                    inconclusive.append('block %d of shard %d differs between std and %s but no differing event was found' % (b, sh, cfg))
                    continue
                l1, l2 = r1[2][first].split(), r2[2].get(first, '').split()
                op = l1[2]
                arrow = l1.index('->')
                ins = l1[3:arrow]
                o1 = l1[arrow + 1:]
                o2 = l2[l2.index('->') + 1:] if '->' in l2 else []
                all_viol.append({
                    'property': prop, 'cfg': cfg, 'op': op, 'kind': 'config_differs', 'inputs': ins, 'outputs': o1 + o2,
                    'inputs_f64': ins, 'outputs_f64': ['std:'] + o1 + ['%s:' % cfg] + o2,
                    'detail': 'first differing event %d in block %d of shard %d: std and %s return different words for identical operands' % (first, b, sh, cfg),
                    'source': 'stream', 'shard': sh, 'nshards': nsh, 'tier': tier, 'seed': seed, 'scale': scale, 'events': per, 'block': b, 'event': first,
                })

    # (3) Miri replay: an independent IEEE-754 interpreter (soft-float mul_add, perturbed
    #     unspecified-precision intrinsics) runs the same workload; event logs diffed with native std
    miri_stats = {'shards': 0, 'events': 0, 'events_compared': 0, 'mismatches': 0}
    msh = 16 if tier == 'quick' else 64
    mper = int((384 if tier == 'quick' else 2048) * min(scale, 4))
    mdir = os.path.join(drv.HARNESS, 'target', 'miri')
    env = dict(drv.ENV, MIRIFLAGS='-Zmiri-ignore-leaks')
    build = subprocess.run(['cargo', '+nightly', 'miri', 'run', '--offline', '--features', 'soft', '--target-dir', mdir, '--', 'stream', prop, '--events', '1'],
                           cwd=drv.HARNESS, env=env, stdout=subprocess.PIPE, stderr=subprocess.PIPE, text=True)
    if build.returncode != 0 or 'END' not in build.stdout:
        inconclusive.append('Miri build/run failed: %s' % build.stderr[-600:])
    else:
        nblk = (mper + 1023) // 1024

        def mjob(sh):
            cmd = ['cargo', '+nightly', 'miri', 'run', '--offline', '--features', 'soft', '--target-dir', mdir, '--', 'stream', prop, '--seed', str(seed), '--shard', str(1000 + sh), '--events', str(mper), '--log', '0,%d' % nblk]
            p = subprocess.run(cmd, cwd=drv.HARNESS, env=env, stdout=subprocess.PIPE, stderr=subprocess.PIPE, text=True)
            ev = {int(l.split()[1]): l for l in p.stdout.splitlines() if l.startswith('V ')}
            return p.returncode, ev, 'END' in p.stdout, p.stderr[-300:]

        def njob(sh):
            return _stream([bins['std'], 'stream', prop, '--seed', str(seed), '--shard', str(1000 + sh), '--events', str(mper), '--log', '0,%d' % nblk])

        with ThreadPoolExecutor(16) as ex:
            mres = list(ex.map(mjob, range(msh)))
        for sh in range(msh):
            rc, mev, ended, err = mres[sh]
            if rc != 0 or not ended:
                inconclusive.append('Miri shard %d failed: %s' % (sh, err))
                continue
            nat = njob(sh)
            miri_stats['shards'] += 1
            miri_stats['events'] += len(mev)
            for e in sorted(nat[2]):
                miri_stats['events_compared'] += 1
                if mev.get(e) != nat[2][e]:
                    miri_stats['mismatches'] += 1
                    l1, l2 = nat[2][e].split(), mev.get(e, '').split()
                    arrow = l1.index('->')
                    ins = l1[3:arrow]
                    o1 = l1[arrow + 1:]
                    o2 = l2[l2.index('->') + 1:] if '->' in l2 else []
                    all_viol.append({
                        'property': prop, 'cfg': 'miri', 'op': l1[2], 'kind': 'miri_differs', 'inputs': ins, 'outputs': o1 + o2,
                        'inputs_f64': ins, 'outputs_f64': ['native std:'] + o1 + ['miri:'] + o2,
                        'detail': 'event %d of Miri shard %d: the native std build and the Miri interpreter (soft-float fma, software libm) return different words' % (e, sh),
                        'source': 'miri', 'shard': 1000 + sh, 'nshards': msh, 'tier': tier, 'seed': seed, 'scale': scale, 'events': mper, 'event': e,
                    })
                    break

    known = drv.load_known()
    matched = {}
    unmatched = []
    for v in all_viol:
        k = drv.match_known(v, known)
        if k is None:
            unmatched.append(v)
        else:
            matched.setdefault(k['id'], [k, 0, v])
            matched[k['id']][1] += 1
    stream_events = per * nsh * 5
    evals = sum(j['evaluations'] for j in runs.values()) + stream_events + miri_stats['events']
    distinct = (runs['std']['distinct_nontrivial'] if 'std' in runs else 0) + per * nsh
    samples = (runs['std']['samples'][:3] if 'std' in runs else [])
    ex = _stream([bins['std'], 'stream', prop, '--seed', str(seed), '--shard', '0', '--events', '4', '--log', '0,0'])
    samples += [{'op': 'stream', 'case': ex[2][e]} for e in sorted(ex[2])]
    coverage = {
        'evaluations': evals, 'distinct_nontrivial': distinct, 'rule': drv.RULES[prop], 'samples': samples, 'exhaustive': False,
        'fma_hook': {cfg: {'evaluations': j['evaluations'], 'violations_total': j['violations_total']} for cfg, j in runs.items()},
        'stream': stream_stats, 'miri': miri_stats,
        'distinct_note': 'stream events are generated from a 64-bit PRNG stream per shard; they are counted as distinct by construction (not hashed)',
        'known_findings_matched': {kid: {'count_in_records': n, 'text': k['text']} for kid, (k, n, _) in matched.items()},
    }
    if inconclusive:
        coverage['inconclusive_reasons'] = inconclusive
    drv.write_evidence(prop, tier, seed, coverage, time.time() - t0, len(unmatched), drv.ASSUME + ['Miri nightly interprets MIR with soft-float semantics for mul_add; libm built with force-soft-floats'])
    for kid, (k, n, v) in sorted(matched.items()):
        log('KNOWN-FINDING: property=%s %s [%s]' % (prop, k['text'], kid))
    rc = 0
    if unmatched:
        os.makedirs(drv.REPLAYS, exist_ok=True)
        seen = set()
        n = 0
        for v in unmatched:
            key = (v['op'], v['kind'], v.get('cfg'))
            if key in seen:
                continue
            seen.add(key)
            path = os.path.join(drv.REPLAYS, '%s-%d-%d.json' % (prop, seed, n))
            n += 1
            with open(path, 'w') as f:
                json.dump(v, f, indent=1)
            log('VIOLATION property=%s replay=%s' % (prop, path))
            log('  op=%s kind=%s cfg=%s inputs=%s outputs=%s :: %s' % (v['op'], v['kind'], v.get('cfg'), v.get('inputs_f64'), v.get('outputs_f64'), v['detail']))
        rc = 1
    elif inconclusive:
        for r in inconclusive:
            log('INCONCLUSIVE property=%s reason=%s' % (prop, r))
        rc = 2
    log('%s %s seed=%d: %d events (fma hook + stream in 5 builds, %d stream events per build, %d blocks compared, %d Miri events), %d unmatched violation record(s), %.1fs'
        % (prop, tier, seed, evals, per * nsh, stream_stats['blocks_compared'], miri_stats['events_compared'], len(unmatched), time.time() - t0))
    return rc


def replay(drv, v, path):
    """Re-execute the recorded event in both configurations on the current tree."""
    cfgs = ['std', v['cfg']] if v['cfg'] in ('nostd', 'soft', 'fma', 'nostd_fma') else ['std']
    bins = {}
    for cfg in cfgs:
        b, err = drv.build(cfg)
        if b is None:
            drv.log('INCONCLUSIVE property=C11 reason=harness does not build (%s)' % cfg)
            return 2
        bins[cfg] = b
    blk = v['event'] // 1024
    outs = {}
    for cfg in cfgs:
        r = _stream([bins[cfg], 'stream', 'C11', '--seed', str(v['seed']), '--shard', str(v['shard']), '--events', str(v['events']), '--log', '%d,%d' % (blk, blk)])
        outs[cfg] = r[2].get(v['event'])
    if v['cfg'] == 'miri':
        mdir = os.path.join(drv.HARNESS, 'target', 'miri')
        env = dict(drv.ENV, MIRIFLAGS='-Zmiri-ignore-leaks')
        p = subprocess.run(['cargo', '+nightly', 'miri', 'run', '--offline', '--features', 'soft', '--target-dir', mdir, '--', 'stream', 'C11', '--seed', str(v['seed']), '--shard', str(v['shard']), '--events', str(v['event'] + 1), '--log', '%d,%d' % (blk, blk)],
                           cwd=drv.HARNESS, env=env, stdout=subprocess.PIPE, stderr=subprocess.PIPE, text=True)
        for l in p.stdout.splitlines():
            if l.startswith('V %d ' % v['event']):
                outs['miri'] = l
    for k, l in outs.items():
        drv.log('%-6s %s' % (k, l))
    if len(set(outs.values())) > 1:
        drv.log('VIOLATION property=C11 replay=%s' % path)
        return 1
    drv.log('configurations agree on this event on the current tree')
    return 0
