"""Offline high-precision checker over tfmon event logs (C12-C18).

Judges every event against mpmath at 400 bits (escalating to 1600 bits when a comparison
lands on the bound) using the bounds copied verbatim from properties.jsonl (spec below).
Runs under python3-vt (mpmath 1.3).  Nothing here imports or calls the crate under test.
"""
import struct
import sys

import mpmath
from mpmath import mp, mpf

PREC = 400
PREC_HI = 1600
mp.prec = PREC


def f64(word):
    return struct.unpack('<d', struct.pack('<Q', word))[0]


def i64(word):
    return word - (1 << 64) if word >= (1 << 63) else word


def exact(hi, lo):
    return mpf(hi) + mpf(lo)


def frac(hi, lo):
    """exact rational value hi + lo (used for domain decisions; the 400-bit mpf sum can round when the
    words are more than 400 binades apart)"""
    from fractions import Fraction
    return Fraction(hi) + Fraction(lo)


def valid_ref(hi, lo):
    return hi == hi and lo == lo and abs(hi) != float('inf') and abs(lo) != float('inf') and hi + lo == hi


def two(k):
    return mpf(2) ** k


# --------------------------------------------------------------------------------------
# spec: op -> function(ins_words) -> None (outside the claimed domain) or
#       (true_value, allowed_abs_error, bound_text)
# --------------------------------------------------------------------------------------

def _x(ins):
    return f64(ins[0]), f64(ins[1])


def in_hi_range(hi, emin, emax):
    a = abs(hi)
    return a == 0.0 or (2.0 ** emin <= a <= 2.0 ** emax) if emax < 1024 else True


def spec_to_degrees(ins):
    hi, lo = _x(ins)
    if not (2.0 ** -450 <= abs(hi) <= 2.0 ** 450):
        return None
    t = exact(hi, lo) * 180 / mp.pi
    return t, 6 * two(-106) * abs(t), '6*2^-106 rel'


def spec_to_radians(ins):
    hi, lo = _x(ins)
    if not (2.0 ** -450 <= abs(hi) <= 2.0 ** 450):
        return None
    t = exact(hi, lo) * mp.pi / 180
    return t, 6 * two(-106) * abs(t), '6*2^-106 rel'


def spec_powi(ins):
    hi, lo = _x(ins)
    n = i64(ins[2])
    if hi == 0.0 or n in (0, 1) or not (2.0 ** -900 <= abs(hi) <= 2.0 ** 900):
        return None
    v = exact(hi, lo)
    # |x|^|n| must lie in [2^-900, 2^900]
    l2 = mpmath.log(abs(v), 2) * abs(n)
    if not (-900 <= l2 <= 900):
        return None
    t = mpmath.power(v, n)
    return t, (6 * abs(n) + 16) * two(-106) * abs(t), '(6|n|+16)*2^-106 rel'


def spec_exp(ins):
    hi, lo = _x(ins)
    v = exact(hi, lo)
    if not (-600 <= v <= 700):
        return None
    t = mpmath.exp(v)
    return t, two(-100) * t, '2^-100 rel'


def spec_exp2(ins):
    hi, lo = _x(ins)
    v = exact(hi, lo)
    if not (-900 <= v <= 1000):
        return None
    t = mpmath.power(2, v)
    return t, two(-93) * t, '2^-93 rel'


def spec_exp_m1(ins):
    hi, lo = _x(ins)
    v = exact(hi, lo)
    if v > 700 or (v != 0 and abs(hi) < 2.0 ** -1000):
        return None
    t = mpmath.expm1(v)
    if abs(v) <= two(-8) or v < mpf('-0.70') or v > mpf('0.41'):
        return t, two(-100) * abs(t), '2^-100 rel'
    return t, two(-45) * abs(t), '2^-45 rel'


def spec_powf(ins):
    xh, xl, yh, yl = f64(ins[0]), f64(ins[1]), f64(ins[2]), f64(ins[3])
    x = exact(xh, xl)
    y = exact(yh, yl)
    if x == 0 or y == 0 or not (two(-30) <= abs(x) <= two(30)) or abs(y) > 10:
        return None
    if x < 0:
        if frac(yh, yl).denominator != 1:
            return None  # invalid result required: checked in-process
        t = mpmath.power(-x, y)
        if int(y) % 2 != 0:
            t = -t
        ylx = abs(y * mpmath.log(-x))
    else:
        t = mpmath.power(x, y)
        ylx = abs(y * mpmath.log(x))
    return t, two(-100) * (1 + ylx) * abs(t), '2^-100*(1+|y ln x|) rel'


def _log_dom(hi):
    return hi > 0 and 2.0 ** -1000 <= hi <= 2.0 ** 960


def spec_ln(ins):
    hi, lo = _x(ins)
    if not _log_dom(hi):
        return None
    t = mpmath.log(exact(hi, lo))
    return t, two(-101) * (1 + abs(t)), '2^-101*(1+|ln v|)'


def spec_log2(ins):
    hi, lo = _x(ins)
    if not _log_dom(hi):
        return None
    t = mpmath.log(exact(hi, lo), 2)
    return t, two(-101) * abs(t) + two(-92), '2^-101*|log2 v| + 2^-92'


def spec_log10(ins):
    hi, lo = _x(ins)
    if not _log_dom(hi):
        return None
    t = mpmath.log10(exact(hi, lo))
    return t, two(-100) * (1 + abs(t)), '2^-100*(1+|log10 v|)'


def spec_ln_1p(ins):
    hi, lo = _x(ins)
    v = exact(hi, lo)
    if not (frac(hi, lo) > -1) or hi > 2.0 ** 960 or (v != 0 and abs(hi) < 2.0 ** -1000):
        return None
    t = mpmath.log1p(v)
    if abs(v) <= two(-8) or v >= mpf('0.75'):
        return t, two(-100) * abs(t), '2^-100 rel'
    return t, two(-45) * abs(t), '2^-45 rel'


def _trig_dom(hi, lo):
    return abs(exact(hi, lo)) <= two(20)


def spec_sin(ins):
    hi, lo = _x(ins)
    if not _trig_dom(hi, lo):
        return None
    v = exact(hi, lo)
    t = mpmath.sin(v)
    b = two(-66)
    txt = '2^-66 abs'
    if abs(v) <= mp.pi / 4:
        b = min(b, two(-64) * abs(t))
        txt = 'min(2^-66, 2^-64*|sin v|)'
    return t, b, txt


def spec_cos(ins):
    hi, lo = _x(ins)
    if not _trig_dom(hi, lo):
        return None
    t = mpmath.cos(exact(hi, lo))
    return t, two(-66), '2^-66 abs'


def spec_tan(ins):
    hi, lo = _x(ins)
    if not _trig_dom(hi, lo):
        return None
    t = mpmath.tan(exact(hi, lo))
    return t, two(-50) * max(abs(t), two(-30)) + two(-80) * (1 + t * t), '2^-50*max(|tan v|,2^-30) + 2^-80*(1+tan^2 v)'


def spec_asin(ins):
    hi, lo = _x(ins)
    v = exact(hi, lo)
    if abs(frac(hi, lo)) > 1:
        return None
    t = mpmath.asin(v)
    if abs(v) == 1:
        return t, two(-100) * max(1, abs(t)), '2^-100 (asin(+-1))'
    return t, min(two(-45), two(-43) * abs(t)), 'min(2^-45 abs, 2^-43 rel)'


def spec_acos(ins):
    hi, lo = _x(ins)
    v = exact(hi, lo)
    if abs(frac(hi, lo)) > 1:
        return None
    t = mpmath.acos(v)
    if v == -1:
        return t, two(-100) * max(1, abs(t)), '2^-100 (acos(-1))'
    return t, two(-45), '2^-45 abs'


def spec_atan(ins):
    hi, lo = _x(ins)
    v = exact(hi, lo)
    if abs(v) > two(60):
        return None
    t = mpmath.atan(v)
    return t, two(-70) * abs(t), '2^-70 rel'


def spec_atan2(ins):
    yh, yl, xh, xl = f64(ins[0]), f64(ins[1]), f64(ins[2]), f64(ins[3])
    for h in (yh, xh):
        if not (2.0 ** -30 <= abs(h) <= 2.0 ** 30):
            return None
    t = mpmath.atan2(exact(yh, yl), exact(xh, xl))
    return t, two(-69) * abs(t), '2^-69 rel'


def spec_cosh(ins):
    hi, lo = _x(ins)
    v = exact(hi, lo)
    if abs(v) > 600:
        return None
    t = mpmath.cosh(v)
    return t, two(-100) * t, '2^-100 rel'


def spec_sinh(ins):
    hi, lo = _x(ins)
    v = exact(hi, lo)
    if abs(v) > 600:
        return None
    t = mpmath.sinh(v)
    return t, two(-100) * abs(t) + two(-101), '2^-100*|f| + 2^-101'


def spec_tanh(ins):
    hi, lo = _x(ins)
    v = exact(hi, lo)
    if abs(v) > 600:
        return None
    t = mpmath.tanh(v)
    return t, two(-100) * abs(t) + two(-101), '2^-100*|f| + 2^-101'


def spec_atanh(ins):
    hi, lo = _x(ins)
    v = exact(hi, lo)
    if abs(frac(hi, lo)) > 1 - frac(2.0 ** -10, 0.0):
        return None
    t = mpmath.atanh(v)
    return t, two(-100) * abs(t) + two(-101), '2^-100*|f| + 2^-101'


def spec_asinh(ins):
    hi, lo = _x(ins)
    v = exact(hi, lo)
    if abs(v) > two(60):
        return None
    t = mpmath.asinh(v)
    return t, two(-100) * abs(t) + two(-98), '2^-100*|f| + 2^-98'


def spec_acosh(ins):
    hi, lo = _x(ins)
    v = exact(hi, lo)
    if not (frac(hi, lo) > 1) or v > two(60):
        return None
    t = mpmath.acosh(v)
    return t, two(-100) * (t + 1 / t), '2^-100*(A + 1/A)'


SPEC = {
    'to_degrees': spec_to_degrees, 'to_radians': spec_to_radians, 'powi': spec_powi,
    'exp': spec_exp, 'exp2': spec_exp2, 'exp_m1': spec_exp_m1, 'powf': spec_powf,
    'ln': spec_ln, 'log2': spec_log2, 'log10': spec_log10, 'ln_1p': spec_ln_1p,
    'sin': spec_sin, 'cos': spec_cos, 'tan': spec_tan,
    'asin': spec_asin, 'acos': spec_acos, 'atan': spec_atan, 'atan2': spec_atan2,
    'cosh': spec_cosh, 'sinh': spec_sinh, 'tanh': spec_tanh,
    'atanh': spec_atanh, 'asinh': spec_asinh, 'acosh': spec_acosh,
}

# ops for which a panic inside the claimed "never panics for valid x" clause is a violation even
# outside the accuracy domain
NO_PANIC_ANYWHERE = {'exp', 'exp2', 'exp_m1', 'powf', 'ln', 'log2', 'log10', 'ln_1p', 'sinh', 'cosh', 'tanh',
                     'asinh', 'acosh', 'atanh', 'powi'}


def const_value(name):
    base = name.split('::')[-1]
    pi = mp.pi
    table = {
        'E': lambda: mp.e, 'FRAC_1_PI': lambda: 1 / pi, 'FRAC_2_PI': lambda: 2 / pi,
        'FRAC_2_SQRT_PI': lambda: 2 / mpmath.sqrt(pi), 'FRAC_1_SQRT_2': lambda: 1 / mpmath.sqrt(2),
        'FRAC_PI_2': lambda: pi / 2, 'FRAC_PI_3': lambda: pi / 3, 'FRAC_PI_4': lambda: pi / 4,
        'FRAC_PI_6': lambda: pi / 6, 'FRAC_PI_8': lambda: pi / 8, 'LN_2': lambda: mpmath.log(2),
        'LN_10': lambda: mpmath.log(10), 'LOG2_E': lambda: 1 / mpmath.log(2), 'LOG10_E': lambda: 1 / mpmath.log(10),
        'LOG10_2': lambda: mpmath.log10(2), 'LOG2_10': lambda: mpmath.log(10, 2), 'PI': lambda: pi,
        'SQRT_2': lambda: mpmath.sqrt(2), 'TAU': lambda: 2 * pi,
    }
    f = table.get(base)
    return f() if f else None


def rn_f64(x):
    """Round an mpf to the nearest double (ties to even) and return it as a Python float."""
    with mp.workprec(53):
        return float(+x)


def hexw(w):
    return '%016x' % w


def fmt(w):
    return float.hex(f64(w)) if f64(w) == f64(w) else 'nan'


class Judge:
    def __init__(self, prop, known_matcher=None):
        self.prop = prop
        self.known_matcher = known_matcher
        self.known_hits = {}
        self.events = 0
        self.judged = 0
        self.outside = 0
        self.inconclusive = 0
        self.ops = {}
        self.viols = []
        self.viol_total = 0
        self.viol_keys = {}
        self.panics = 0
        self.touch = {}
        self.consts = 0
        self.distinct = set()
        self.samples = {}
        self.end_seen = False
        self.harness_events = None
        self.triaged = 0
        self.triage_diffs = 0

    def viol(self, op, kind, ins, outs, detail):
        self.viol_total += 1
        rec = {
            'property': self.prop, 'cfg': 'std', 'op': op, 'kind': kind,
            'inputs': [hexw(w) for w in ins], 'outputs': [hexw(w) for w in outs],
            'inputs_f64': [fmt(w) for w in ins], 'outputs_f64': [fmt(w) for w in outs],
            'detail': detail,
        }
        # violations matching a recorded known finding are tallied apart so that they can never
        # use up the per-key record cap and hide a different violation of the same (op, kind)
        if self.known_matcher is not None:
            kid = self.known_matcher(rec)
            if kid is not None:
                h = self.known_hits.setdefault(kid, {'count': 0, 'example': rec})
                h['count'] += 1
                return
        k = (op, kind)
        self.viol_keys[k] = self.viol_keys.get(k, 0) + 1
        if self.viol_keys[k] <= 12:
            self.viols.append(rec)

    def line(self, ln):
        p = ln.split()
        if not p:
            return
        tag = p[0]
        if tag == 'E':
            op = p[1]
            nin = int(p[2])
            ins = [int(x, 16) for x in p[3:3 + nin]]
            nout = int(p[3 + nin])
            outs = [int(x, 16) for x in p[4 + nin:4 + nin + nout]]
            self.event(op, ins, outs)
        elif tag == 'P':
            op = p[1]
            nin = int(p[2])
            ins = [int(x, 16) for x in p[3:3 + nin]]
            msg = ' '.join(p[3 + nin:])
            self.events += 1
            self.panics += 1
            st = self.ops.setdefault(op, {'n': 0, 'judged': 0, 'max_err_over_bound': 0.0, 'worst_input': None, 'bound': ''})
            st['n'] += 1
            inside = SPEC[op](ins) is not None if op in SPEC else True
            if inside or op in NO_PANIC_ANYWHERE:
                self.viol(op, 'panic', ins, [], msg)
        elif tag == 'K':
            self.konst(p[1], int(p[2], 16), int(p[3], 16))
        elif tag == 'T':
            self.touch[(int(p[1]), int(p[2]))] = self.touch.get((int(p[1]), int(p[2])), 0) + int(p[3])
        elif tag == 'G':
            self.triaged += int(p[1])
            self.triage_diffs += int(p[2])
        elif tag == 'END':
            self.end_seen = True
            self.harness_events = int(p[1])

    def konst(self, name, hiw, low):
        c = const_value(name)
        if c is None:
            return
        self.consts += 1
        self.events += 1
        with mp.workprec(600):
            c = const_value(name)
            want_hi = rn_f64(c)
            want_lo = rn_f64(c - mpf(want_hi))
        hi, lo = f64(hiw), f64(low)
        st = self.ops.setdefault('const', {'n': 0, 'judged': 0, 'max_err_over_bound': 0.0, 'worst_input': None, 'bound': 'hi==RN(c), lo==RN(c-hi)'})
        st['n'] += 1
        st['judged'] += 1
        self.judged += 1
        self.distinct.add(hash(('K', name)))
        if hi != want_hi or lo != want_lo:
            self.viol('const', 'not_correctly_rounded', [hiw, low], [], '%s: expected (%s, %s)' % (name, float.hex(want_hi), float.hex(want_lo)))
        self.samples.setdefault('const', [])
        if len(self.samples['const']) < 2:
            self.samples['const'].append({'name': name, 'hi': float.hex(hi), 'lo': float.hex(lo), 'correctly_rounded': hi == want_hi and lo == want_lo})

    def event(self, op, ins, outs):
        self.events += 1
        st = self.ops.setdefault(op, {'n': 0, 'judged': 0, 'max_err_over_bound': 0.0, 'worst_input': None, 'bound': ''})
        st['n'] += 1
        fn = SPEC.get(op)
        if fn is None:
            return
        # operands must be valid (the harness generates them so; this is a harness sanity check)
        k = 0
        while k + 1 < len(ins) and not (op == 'powi' and k >= 2):
            if not valid_ref(f64(ins[k]), f64(ins[k + 1])):
                self.outside += 1
                return
            k += 2
        # enough working precision to hold every operand hi + lo exactly (words may be ~2000 binades apart)
        import math
        prec = PREC
        k = 0
        while k + 1 < len(ins) and not (op == 'powi' and k >= 2):
            h, l = f64(ins[k]), f64(ins[k + 1])
            if h != 0.0 and l != 0.0:
                prec = max(prec, math.frexp(h)[1] - math.frexp(l)[1] + 53 + 300)
            k += 2
        with mp.workprec(prec):
            s = fn(ins)
        if s is None:
            self.outside += 1
            return
        t, bound, txt = s
        rh, rl = f64(outs[0]), f64(outs[1])
        self.judged += 1
        st['judged'] += 1
        st['bound'] = txt
        if len(self.distinct) < (1 << 20):
            self.distinct.add(hash((op, tuple(ins))))
        if not (rh == rh and rl == rl and abs(rh) != float('inf') and abs(rl) != float('inf')):
            self.viol(op, 'nonfinite', ins, outs, 'non-finite result inside the claimed domain; bound %s' % txt)
            return
        err = abs(exact(rh, rl) - t)
        if bound == 0:
            ratio = mpf(0) if err == 0 else mpf('inf')
        else:
            ratio = err / bound
        if abs(ratio - 1) < two(-60):
            # too close to call at this precision: escalate
            with mp.workprec(PREC_HI):
                t2, b2, _ = fn(ins)
                err2 = abs(exact(rh, rl) - t2)
                ratio = err2 / b2 if b2 != 0 else (mpf(0) if err2 == 0 else mpf('inf'))
                if abs(ratio - 1) < two(-1000):
                    self.inconclusive += 1
                    return
        r = float(ratio)
        if r > st['max_err_over_bound']:
            st['max_err_over_bound'] = r
            st['worst_input'] = [hexw(w) for w in ins]
        if ratio > 1:
            self.viol(op, 'accuracy', ins, outs, 'error exceeds %s: err/bound = %.4e, true value ~ %s' % (txt, r, mpmath.nstr(t, 20)))
        sm = self.samples.setdefault(op, [])
        if len(sm) < 2:
            sm.append({'in': [fmt(w) for w in ins], 'out': [fmt(w) for w in outs], 'err_over_bound': r, 'bound': txt})

    def result(self):
        return {
            'events': self.events, 'judged': self.judged, 'outside_claim': self.outside, 'inconclusive': self.inconclusive,
            'ops': self.ops, 'violations': self.viols, 'violations_total': self.viol_total,
            'violation_keys': [{'op': k[0], 'kind': k[1], 'count': v} for k, v in self.viol_keys.items()],
            'panics': self.panics, 'touch': [[s, i, n] for (s, i), n in sorted(self.touch.items())],
            'consts': self.consts, 'distinct': len(self.distinct), 'samples': self.samples,
            'end_seen': self.end_seen, 'harness_events': self.harness_events, 'known_hits': self.known_hits, 'triaged': self.triaged, 'triage_diffs': self.triage_diffs,
        }


def judge_stream(prop, stream):
    j = Judge(prop)
    for ln in stream:
        j.line(ln)
    return j.result()


if __name__ == '__main__':
    import json
    print(json.dumps(judge_stream(sys.argv[1] if len(sys.argv) > 1 else 'C??', sys.stdin)))
