pub mod fraction;
pub mod sign;

#[cfg(feature = "math_funcs")]
#[macro_use]
mod function_utils;

#[cfg(feature = "math_funcs")]
pub mod explog;
#[cfg(feature = "math_funcs")]
pub mod hyperbolic;
#[cfg(feature = "math_funcs")]
pub mod power;
#[cfg(feature = "math_funcs")]
pub mod trigonometry;
