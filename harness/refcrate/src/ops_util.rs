macro_rules! op_trait_impl {
    (
        $trait:ident, $name:ident, $($ab:lifetime,)*
        $slf:ident, $lt:ty, $rhs:ident, $rt:ty,
        $ot:ty, $($meta:meta,)* $code:block
    ) => {
        impl<$($ab,)*> $trait<$rt> for $lt {
            type Output = $ot;

            $(#[$meta])*
            fn $name($slf, $rhs:$rt) -> Self::Output $code
        }
    };
    (
        $trait:ident, $name:ident, $($ab:lifetime,)*
        $slf:ident, $lt:ty, $rhs:ident, $rt:ty,
        $($meta:meta,)* $code:block
    ) => {
        impl<$($ab,)*> $trait<$rt> for $lt {
            $(#[$meta])*
            fn $name(&mut $slf, $rhs:$rt) $code
        }
    };
    (
        $trait:ident, $name:ident, $($a:lifetime,)?
        $slf:ident, $t:ty, $ot:ty,
        $($meta:meta,)* $code:block
    ) => {
        impl<$($a)?> $trait for $t {
            type Output = $ot;

            $(#[$meta])*
            fn $name($slf) -> Self::Output $code
        }
    };
}

macro_rules! binary_ops {
    (
        $(#[$meta:meta])*
        fn $trait:ident::$name:ident<$($ab:lifetime),+>(
            $slf:ident: &$a:lifetime $lt:ty, $rhs:ident: &$b:lifetime $rt:ty) -> $ot:ty
        $code:block
    ) => {
        op_trait_impl!($trait, $name, $($ab),+, $slf, &$a $lt, $rhs, &$b $rt, $ot, $($meta,)* $code);
        op_trait_impl!($trait, $name, $a, $slf, &$a $lt, $rhs, $rt, $ot, $($meta,)* { $slf.$name(&$rhs) });
        op_trait_impl!($trait, $name, $b, $slf, $lt, $rhs, &$b $rt, $ot, $($meta,)* { (&$slf).$name($rhs) });
        op_trait_impl!($trait, $name, $slf, $lt, $rhs, $rt, $ot, $($meta,)* { (&$slf).$name(&$rhs) });
    };
    (
        $(#[$meta:meta])*
        fn $trait:ident::$name:ident<$($ab:lifetime),+>(
            $slf:ident: &$a:lifetime $lt:ty, $rhs:ident: &$b:lifetime $rt:ty) -> $ot:ty
        $code:block
        $(
            $(#[$metas:meta])*
            fn $traits:ident::$names:ident<$($abs:lifetime),+>(
                $slfs:ident: &$as:lifetime $lts:ty, $rhss:ident: &$bs:lifetime $rts:ty) -> $ots:ty
            $codes:block
        )+
    ) => {
        binary_ops! {
            $(#[$meta])*
            fn $trait::$name<$($ab),+>($slf: &$a $lt, $rhs: &$b $rt) -> $ot
            $code
        }

        binary_ops! {
            $(
                $(#[$metas])*
                fn $traits::$names<$($abs),+>($slfs: &$as $lts, $rhss: &$bs $rts) -> $ots
                $codes
            )+
        }
    };
}

macro_rules! assign_ops {
    (
        $(#[$meta:meta])*
        fn $trait:ident::$name:ident<$a:lifetime>(
            $slf:ident: &mut $lt:ty, $rhs:ident: &$aa:lifetime $rt:ty) $code:block
    ) => {
        op_trait_impl!($trait, $name, $a, $slf, $lt, $rhs, &$aa $rt, $($meta,)* $code);
        op_trait_impl!($trait, $name, $a, $slf, $lt, $rhs, $rt, $($meta,)* { $slf.$name(&$rhs); });
    };
    (
        $(#[$meta:meta])*
        fn $trait:ident::$name:ident<$a:lifetime>(
            $slf:ident: &mut $lt:ty, $rhs:ident: &$aa:lifetime $rt:ty) $code:block
        $(
            $(#[$metas:meta])*
            fn $traits:ident::$names:ident<$as:lifetime>(
                $slfs:ident: &mut $lts:ty, $rhss:ident: &$aas:lifetime $rts:ty) $codes:block
        )+
    ) => {
        assign_ops! {
            $(#[$meta])*
            fn $trait::$name<$a>($slf: &mut $lt, $rhs: &$aa $rt) $code
        }

        assign_ops! {
            $(
                $(#[$metas])*
                fn $traits::$names<$as>($slfs: &mut $lts, $rhss: &$aas $rts) $codes
            )+
        }
    };
}

macro_rules! unary_ops {
    (
        $(#[$meta:meta])*
        fn $trait:ident::$name:ident($slf:ident: &$t:ty) -> $ot:ty $code:block
    ) => {
        op_trait_impl!($trait, $name, 'a, $slf, &'a $t, $ot, $($meta,)* $code);
        op_trait_impl!($trait, $name, $slf, $t, $ot, $($meta,)* { (&$slf).$name() });
    };
}
