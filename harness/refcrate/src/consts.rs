use hexf::hexf64;

use crate::TwoFloat;

/// Euler's number (e)
pub const E: TwoFloat = TwoFloat {
    hi: hexf64!("0x1.5bf0a8b145769p1"),
    lo: hexf64!("0x1.4d57ee2b1013ap-53"),
};

/// 1/π
pub const FRAC_1_PI: TwoFloat = TwoFloat {
    hi: hexf64!("0x1.45f306dc9c883p-2"),
    lo: hexf64!("-0x1.6b01ec5417056p-56"),
};

/// 2/π
pub const FRAC_2_PI: TwoFloat = TwoFloat {
    hi: hexf64!("0x1.45f306dc9c883p-1"),
    lo: hexf64!("-0x1.6b01ec5417056p-55"),
};

/// 2/sqrt(π)
pub const FRAC_2_SQRT_PI: TwoFloat = TwoFloat {
    hi: hexf64!("0x1.20dd750429b6dp0"),
    lo: hexf64!("0x1.1ae3a914fed8p-56"),
};

/// 1/sqrt(2)
pub const FRAC_1_SQRT_2: TwoFloat = TwoFloat {
    hi: hexf64!("0x1.6a09e667f3bcdp-1"),
    lo: hexf64!("-0x1.bdd3413b26456p-55"),
};

/// π/2
pub const FRAC_PI_2: TwoFloat = TwoFloat {
    hi: hexf64!("0x1.921fb54442d18p0"),
    lo: hexf64!("0x1.1a62633145c07p-54"),
};

/// π/3
pub const FRAC_PI_3: TwoFloat = TwoFloat {
    hi: hexf64!("0x1.0c152382d7366p0"),
    lo: hexf64!("-0x1.ee6913347c2a6p-54"),
};

/// π/4
pub const FRAC_PI_4: TwoFloat = TwoFloat {
    hi: hexf64!("0x1.921fb54442d18p-1"),
    lo: hexf64!("0x1.1a62633145c07p-55"),
};

/// π/6
pub const FRAC_PI_6: TwoFloat = TwoFloat {
    hi: hexf64!("0x1.0c152382d7366p-1"),
    lo: hexf64!("-0x1.ee6913347c2a6p-55"),
};

/// π/8
pub const FRAC_PI_8: TwoFloat = TwoFloat {
    hi: hexf64!("0x1.921fb54442d18p-2"),
    lo: hexf64!("0x1.1a62633145c07p-56"),
};

/// ln(2)
pub const LN_2: TwoFloat = TwoFloat {
    hi: hexf64!("0x1.62e42fefa39efp-1"),
    lo: hexf64!("0x1.abc9e3b39803fp-56"),
};

/// ln(10)
pub const LN_10: TwoFloat = TwoFloat {
    hi: hexf64!("0x1.26bb1bbb55516p1"),
    lo: hexf64!("-0x1.f48ad494ea3e9p-53"),
};

/// log<sub>2</sub>(e)
pub const LOG2_E: TwoFloat = TwoFloat {
    hi: hexf64!("0x1.71547652b82fep0"),
    lo: hexf64!("0x1.777d0ffda0d24p-56"),
};

/// log<sub>10</sub>(e)
pub const LOG10_E: TwoFloat = TwoFloat {
    hi: hexf64!("0x1.bcb7b1526e50ep-2"),
    lo: hexf64!("0x1.95355baaafad3p-57"),
};

/// log<sub>10</sub>(2)
pub const LOG10_2: TwoFloat = TwoFloat {
    hi: hexf64!("0x1.34413509f79ffp-2"),
    lo: hexf64!("-0x1.9dc1da994fd21p-59"),
};

/// log<sub>2</sub>(10)
pub const LOG2_10: TwoFloat = TwoFloat {
    hi: hexf64!("0x1.a934f0979a371p1"),
    lo: hexf64!("0x1.7f2495fb7fa6dp-53"),
};

/// Archimedes' constant (π)
pub const PI: TwoFloat = TwoFloat {
    hi: hexf64!("0x1.921fb54442d18p1"),
    lo: hexf64!("0x1.1a62633145c07p-53"),
};

/// sqrt(2)
pub const SQRT_2: TwoFloat = TwoFloat {
    hi: hexf64!("0x1.6a09e667f3bcdp0"),
    lo: hexf64!("-0x1.bdd3413b26456p-54"),
};

/// The full circle constant (τ)
pub const TAU: TwoFloat = TwoFloat {
    hi: hexf64!("0x1.921fb54442d18p2"),
    lo: hexf64!("0x1.1a62633145c07p-52"),
};

#[cfg(test)]
mod tests {
    use super::{
        E, FRAC_1_PI, FRAC_1_SQRT_2, FRAC_2_PI, FRAC_2_SQRT_PI, FRAC_PI_2, FRAC_PI_3, FRAC_PI_4,
        FRAC_PI_6, FRAC_PI_8, LN_10, LN_2, LOG10_2, LOG10_E, LOG2_10, LOG2_E, PI, SQRT_2, TAU,
    };

    macro_rules! const_check {
        ($name:ident) => {
            #[cfg(test)]
            #[allow(non_snake_case)]
            mod $name {
                use super::$name;

                #[test]
                fn valid_test() {
                    assert!($name.is_valid());
                }

                #[test]
                fn value_test() {
                    assert_eq!($name.hi, core::f64::consts::$name);
                }
            }
        };
        ($name:ident, $($names:ident),+) => {
            const_check! { $name }
            const_check! { $($names),+ }
        };
        ($($names:ident,)+) => {
            const_check! { $($names),+ }
        };
        (#[cfg($feature:tt)] $name:ident) => {
            #[cfg(test)]
            #[allow(non_snake_case)]
            mod $name {
                use super::$name;

                #[test]
                fn valid_test() {
                    assert!($name.is_valid());
                }

                #[cfg($feature)]
                #[test]
                fn value_test() {
                    assert_eq!($name.hi, core::f64::consts::$name);
                }
            }
        };
        (#[cfg($feature:tt)] $name:ident, $($names:ident),+) => {
            const_check! { #[cfg($feature)] $name }
            const_check! { #[cfg($feature)] $($names),+ }
        };
        (#[cfg($feature:tt)] $($names:ident,)+) => {
            const_check! { #[cfg($feature)] $($names),+ }
        }
    }

    const_check! {
        E, FRAC_1_PI, FRAC_2_PI, FRAC_2_SQRT_PI, FRAC_1_SQRT_2, FRAC_PI_2,
        FRAC_PI_3, FRAC_PI_4, FRAC_PI_6, FRAC_PI_8, LN_2, LN_10, LOG2_10, LOG2_E,
        LOG10_2, LOG10_E, PI, SQRT_2, TAU
    }
}
