use core::convert::TryFrom;

use serde::{
    de::{self, Unexpected, Visitor},
    ser::SerializeStruct,
    Deserialize, Serialize,
};

use crate::TwoFloat;

impl Serialize for TwoFloat {
    fn serialize<S>(&self, serializer: S) -> Result<S::Ok, S::Error>
    where
        S: serde::Serializer,
    {
        let mut state = serializer.serialize_struct("TwoFloat", 2)?;
        state.serialize_field("hi", &self.hi)?;
        state.serialize_field("lo", &self.lo)?;
        state.end()
    }
}

impl<'de> Deserialize<'de> for TwoFloat {
    fn deserialize<D>(deserializer: D) -> Result<Self, D::Error>
    where
        D: serde::Deserializer<'de>,
    {
        const FIELDS: &[&str] = &["secs", "nanos"];
        enum Field {
            Hi,
            Lo,
        }

        impl<'de> Deserialize<'de> for Field {
            fn deserialize<D>(deserializer: D) -> Result<Self, D::Error>
            where
                D: serde::Deserializer<'de>,
            {
                struct FieldVisitor;

                impl Visitor<'_> for FieldVisitor {
                    type Value = Field;

                    fn expecting(&self, formatter: &mut core::fmt::Formatter) -> core::fmt::Result {
                        formatter.write_str("`hi` or `lo`")
                    }

                    fn visit_str<E>(self, v: &str) -> Result<Self::Value, E>
                    where
                        E: serde::de::Error,
                    {
                        match v {
                            "hi" => Ok(Field::Hi),
                            "lo" => Ok(Field::Lo),
                            _ => Err(de::Error::unknown_field(v, FIELDS)),
                        }
                    }
                }

                deserializer.deserialize_identifier(FieldVisitor)
            }
        }

        struct TwoFloatVisitor;

        impl<'de> Visitor<'de> for TwoFloatVisitor {
            type Value = TwoFloat;

            fn expecting(&self, formatter: &mut core::fmt::Formatter) -> core::fmt::Result {
                formatter.write_str("struct TwoFloat")
            }

            fn visit_seq<A>(self, mut seq: A) -> Result<Self::Value, A::Error>
            where
                A: de::SeqAccess<'de>,
            {
                let hi = seq
                    .next_element()?
                    .ok_or_else(|| de::Error::invalid_length(0, &self))?;
                let lo = seq
                    .next_element()?
                    .ok_or_else(|| de::Error::invalid_length(1, &self))?;
                TwoFloat::try_from((hi, lo)).map_err(|_| {
                    de::Error::invalid_value(Unexpected::Float(lo), &"non-overlapping low word")
                })
            }

            fn visit_map<A>(self, mut map: A) -> Result<Self::Value, A::Error>
            where
                A: de::MapAccess<'de>,
            {
                let mut hi = None;
                let mut lo = None;
                while let Some(key) = map.next_key()? {
                    match key {
                        Field::Hi => {
                            if hi.is_some() {
                                return Err(de::Error::duplicate_field("hi"));
                            }

                            hi = Some(map.next_value()?);
                        }
                        Field::Lo => {
                            if lo.is_some() {
                                return Err(de::Error::duplicate_field("lo"));
                            }

                            lo = Some(map.next_value()?);
                        }
                    }
                }

                let hi = hi.ok_or_else(|| de::Error::missing_field("hi"))?;
                let lo = lo.ok_or_else(|| de::Error::missing_field("lo"))?;
                TwoFloat::try_from((hi, lo)).map_err(|_| {
                    de::Error::invalid_value(Unexpected::Float(lo), &"non-overlapping low word")
                })
            }
        }

        deserializer.deserialize_struct("TwoFloat", FIELDS, TwoFloatVisitor)
    }
}
