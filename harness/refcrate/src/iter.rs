use crate::TwoFloat;
use core::iter::Sum;
use core::ops::Add;
use num_traits::Zero;

impl<T> Sum<T> for TwoFloat
where
    Self: Add<T, Output = Self>,
{
    fn sum<I>(iter: I) -> Self
    where
        I: Iterator<Item = T>,
    {
        iter.fold(Self::zero(), <Self>::add)
    }
}

#[cfg(test)]
mod tests {
    use super::*;

    #[cfg(feature = "std")]
    #[test]
    fn iter_sum_vec_1() {
        let v: Vec<f64> = (1..=100).map(|x| x.into()).collect();
        let v_sum: TwoFloat = v.iter().sum();
        let res: TwoFloat = 5050.0.into();

        assert_eq!(v_sum, res);
    }

    #[cfg(feature = "std")]
    #[test]
    fn iter_sum_vec_2() {
        let v: Vec<f64> = (1..=108).map(|x| 2f64.powi(-x)).collect();
        let v_sum: TwoFloat = v.iter().sum();
        let one: TwoFloat = 1.0.into();
        assert!(v_sum - one < 1e-32);
    }

    #[test]
    fn iter_sum_1() {
        let sum: TwoFloat = (1..=100).map(|x| x as f64).sum();
        let res: TwoFloat = 5050.0.into();

        assert_eq!(sum, res);
    }

    #[test]
    fn iter_sum_2() {
        let sum: TwoFloat = (1..=108).map(|x| 2f64.powi(-x)).sum();
        let one: TwoFloat = 1.0.into();
        assert!(sum - one < 1e-32);
    }
}
