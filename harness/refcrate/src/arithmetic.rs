#![allow(clippy::extra_unused_lifetimes)]

use core::ops::{
    Add, AddAssign, Div, DivAssign, Mul, MulAssign, Neg, Rem, RemAssign, Sub, SubAssign,
};

use crate::TwoFloat;

// MinGW FMA seems to be inaccurate, use libm even if std is enabled.
#[cfg(all(feature = "std", not(all(windows, target_env = "gnu"))))]
#[inline(always)]
fn fma(x: f64, y: f64, z: f64) -> f64 {
    f64::mul_add(x, y, z)
}

#[cfg(not(all(feature = "std", not(all(windows, target_env = "gnu")))))]
#[inline(always)]
fn fma(x: f64, y: f64, z: f64) -> f64 {
    libm::fma(x, y, z)
}

#[cfg(feature = "verif_hooks")]
pub(crate) fn verif_fma(x: f64, y: f64, z: f64) -> f64 {
    fma(x, y, z)
}

/// Renormalization ensures that the components of the returned tuple are arranged in such a
/// way that the absolute value of the last component is no more than half the ULP of the
/// first.
#[inline]
pub fn renorm3(a: f64, b: f64, c: f64) -> TwoFloat {
    let u = fast_two_sum(a, b);
    let v = fast_two_sum(c, u.hi);
    fast_two_sum(v.hi, u.lo + v.lo)
}

pub(crate) fn fast_two_sum(a: f64, b: f64) -> TwoFloat {
    // Joldes et al. (2017) Algorithm 1
    let s = a + b;
    let z = s - a;
    TwoFloat { hi: s, lo: b - z }
}

impl TwoFloat {
    /// Creates a new `TwoFloat` by adding two `f64` values using Algorithm 2
    /// from Joldes et al. (2017).
    pub fn new_add(a: f64, b: f64) -> Self {
        let s = a + b;
        let aa = s - b;
        let bb = s - aa;
        let da = a - aa;
        let db = b - bb;
        Self { hi: s, lo: da + db }
    }

    /// Creates a new `TwoFloat` by subtracting two `f64` values using
    /// Algorithm 2 from Joldes et al. (2017) modified for negative right-hand
    /// side.
    pub fn new_sub(a: f64, b: f64) -> Self {
        let s = a - b;
        let aa = s + b;
        let bb = s - aa;
        let da = a - aa;
        let db = b + bb;
        Self { hi: s, lo: da - db }
    }

    /// Creates a new `TwoFloat` by multiplying two `f64` values using
    /// Algorithm 3 from Joldes et al. (2017).
    pub fn new_mul(a: f64, b: f64) -> Self {
        let p = a * b;
        Self {
            hi: p,
            lo: fma(a, b, -p),
        }
    }

    /// Creates a new `TwoFloat` by dividing two `f64` values using Algorithm
    /// 15 from Joldes et al. (2017) modified for the left-hand-side having a
    /// zero value in the low word.
    pub fn new_div(a: f64, b: f64) -> Self {
        let th = a / b;
        let (ph, pl) = Self::new_mul(th, b).into();
        let dh = a - ph;
        let d = dh - pl;
        let tl = d / b;
        fast_two_sum(th, tl)
    }
}

unary_ops! {
    fn Neg::neg(self: &TwoFloat) -> TwoFloat {
        Self::Output {
            hi: -self.hi,
            lo: -self.lo,
        }
    }
}

binary_ops! {
    /// Implements addition of `TwoFloat` and `f64` using Joldes et al.
    /// (2017) Algorithm 4.
    fn Add::add<'a, 'b>(self: &'a TwoFloat, rhs: &'b f64) -> TwoFloat {
        let (sh, sl) = TwoFloat::new_add(self.hi, *rhs).into();
        let v = self.lo + sl;
        fast_two_sum(sh, v)
    }

    /// Implements addition of `TwoFloat` and `f64` using Joldes et al.
    /// (2017) Algorithm 4.
    fn Add::add<'a, 'b>(self: &'a f64, rhs: &'b TwoFloat) -> TwoFloat {
        let (sh, sl) = TwoFloat::new_add(rhs.hi, *self).into();
        let v = rhs.lo + sl;
        fast_two_sum(sh, v)
    }

    /// Implements addition of two `TwoFloat` values using Joldes et al.
    /// (2017) Algorithm 6.
    fn Add::add<'a, 'b>(self: &'a TwoFloat, rhs: &'b TwoFloat) -> TwoFloat {
        let (sh, sl) = TwoFloat::new_add(self.hi, rhs.hi).into();
        let (th, tl) = TwoFloat::new_add(self.lo, rhs.lo).into();
        let c = sl + th;
        let (vh, vl) = fast_two_sum(sh, c).into();
        let w = tl + vl;
        fast_two_sum(vh, w)
    }

    /// Implements subtraction of `TwoFloat` and `f64` using Joldes et al.
    /// (2017) Algorithm 4 modified for negative right-hand side.
    fn Sub::sub<'a, 'b>(self: &'a TwoFloat, rhs: &'b f64) -> TwoFloat {
        let (sh, sl) = TwoFloat::new_sub(self.hi, *rhs).into();
        let v = self.lo + sl;
        fast_two_sum(sh, v)
    }

    /// Implements subtraction of `f64` and `TwoFloat` using Joldes et al.
    /// (2017) Algorithm 4 modified for negative left-hand side.
    fn Sub::sub<'a, 'b>(self: &'a f64, rhs: &'b TwoFloat) -> TwoFloat {
        let (sh, sl) = TwoFloat::new_sub(*self, rhs.hi).into();
        let v = sl - rhs.lo;
        fast_two_sum(sh, v)
    }

    /// Implements subtraction of two `TwoFloat` values using Joldes et al.
    /// (2017) Algorithm 6 modified for a negative right-hand side.
    fn Sub::sub<'a, 'b>(self: &'a TwoFloat, rhs: &'b TwoFloat) -> TwoFloat {
        let (sh, sl) = TwoFloat::new_sub(self.hi, rhs.hi).into();
        let (th, tl) = TwoFloat::new_sub(self.lo, rhs.lo).into();
        let c = sl + th;
        let (vh, vl) = fast_two_sum(sh, c).into();
        let w = tl + vl;
        fast_two_sum(vh, w)
    }

    /// Implements multiplication of `TwoFloat` and `f64` using Joldes et al.
    /// (2017) Algorithm 9.
    fn Mul::mul<'a, 'b>(self: &'a TwoFloat, rhs: &'b f64) -> TwoFloat {
        let (ch, cl1) = TwoFloat::new_mul(self.hi, *rhs).into();
        let cl3 = fma(self.lo, *rhs, cl1);
        fast_two_sum(ch, cl3)
    }

    /// Implements multiplication of `TwoFloat` and `f64` using Joldes et al.
    /// (2017) Algorithm 9.
    fn Mul::mul<'a, 'b>(self: &'a f64, rhs: &'b TwoFloat) -> TwoFloat {
        let (ch, cl1) = TwoFloat::new_mul(rhs.hi, *self).into();
        let cl3 = fma(rhs.lo, *self, cl1);
        fast_two_sum(ch, cl3)
    }

    /// Implements multiplication of two `TwoFloat` values using Joldes et al.
    /// (2017) Algorithm 12.
    fn Mul::mul<'a, 'b>(self: &'a TwoFloat, rhs: &'b TwoFloat) -> TwoFloat {
        let (ch, cl1) = TwoFloat::new_mul(self.hi, rhs.hi).into();
        let tl0 = self.lo * rhs.lo;
        let tl1 = fma(self.hi, rhs.lo, tl0);
        let cl2 = fma(self.lo, rhs.hi, tl1);
        let cl3 = cl1 + cl2;
        fast_two_sum(ch, cl3)
    }

    /// Implements division of `TwoFloat` and `f64` using Joldes et al. (2017)
    /// Algorithm 15
    fn Div::div<'a, 'b>(self: &'a TwoFloat, rhs: &'b f64) -> TwoFloat {
        let th = self.hi / rhs;
        let (ph, pl) = TwoFloat::new_mul(th, *rhs).into();
        let dh = self.hi - ph;
        let dt = dh - pl;
        let d = dt + self.lo;
        let tl = d / rhs;
        fast_two_sum(th, tl)
    }

    /// Former implements division from Joldes et al. (2017) Algorithm 18
    /// Now taken from qd crate using long division
    fn Div::div<'a, 'b>(self: &'a f64, rhs: &'b TwoFloat) -> TwoFloat {
                let q1 = self / rhs.hi;
                let mut r = self - (rhs* q1);
                let q2 = r.hi / rhs.hi;
                r -=rhs* q2;
                let q3 = r.hi / rhs.hi;
                renorm3(q1, q2, q3)
    }

    /// Former implements division from Joldes et al. (2017) Algorithm 18
    /// Now taken from qd crate using long division
    fn Div::div<'a, 'b>(self: &'a TwoFloat, rhs: &'b TwoFloat) -> TwoFloat {
                let q1 = self.hi / rhs.hi;
                let mut r = self - (rhs* q1);
                let q2 = r.hi / rhs.hi;
                r -=rhs* q2;
                let q3 = r.hi / rhs.hi;
                renorm3(q1, q2, q3)
    }

    fn Rem::rem<'a, 'b>(self: &'a TwoFloat, rhs: &'b f64) -> TwoFloat {
        let quotient = (self / rhs).trunc();
        self - quotient * rhs
    }

    fn Rem::rem<'a, 'b>(self: &'a f64, rhs: &'b TwoFloat) -> TwoFloat {
        let quotient = (self / rhs).trunc();
        self - quotient * rhs
    }

    fn Rem::rem<'a, 'b>(self: &'a TwoFloat, rhs: &'b TwoFloat) -> TwoFloat {
        let quotient = (self / rhs).trunc();
        self - quotient * rhs
    }
}

// Self-assignment operators

assign_ops! {
    /// Implements addition of `TwoFloat` and `f64` using Joldes et al.
    /// (2017) Algorithm 4.
    fn AddAssign::add_assign<'a>(self: &mut TwoFloat, rhs: &'a f64) {
        let (sh, sl) = TwoFloat::new_add(self.hi, *rhs).into();
        let v = self.lo + sl;
        *self = fast_two_sum(sh, v);
    }

    /// Implements addition of two `TwoFloat` values using Joldes et al.
    /// (2017) Algorithm 6.
    fn AddAssign::add_assign<'a>(self: &mut TwoFloat, rhs: &'a TwoFloat) {
        let (sh, sl) = TwoFloat::new_add(self.hi, rhs.hi).into();
        let (th, tl) = TwoFloat::new_add(self.lo, rhs.lo).into();
        let c = sl + th;
        let (vh, vl) = fast_two_sum(sh, c).into();
        let w = tl + vl;
        *self = fast_two_sum(vh, w)
    }

    /// Implements subtraction of `TwoFloat` and `f64` using Joldes et al.
    /// (2017) Algorithm 4 modified for negative right-hand side.
    fn SubAssign::sub_assign<'a>(self: &mut TwoFloat, rhs: &'a f64) {
        let (sh, sl) = TwoFloat::new_sub(self.hi, *rhs).into();
        let v = self.lo + sl;
        *self = fast_two_sum(sh, v);
    }

    /// Implements subtraction of two `TwoFloat` values using Joldes et al.
    /// (2017) Algorithm 6 modified for a negative right-hand side.
    fn SubAssign::sub_assign<'a>(self: &mut TwoFloat, rhs: &'a TwoFloat) {
        let (sh, sl) = TwoFloat::new_sub(self.hi, rhs.hi).into();
        let (th, tl) = TwoFloat::new_sub(self.lo, rhs.lo).into();
        let c = sl + th;
        let (vh, vl) = fast_two_sum(sh, c).into();
        let w = tl + vl;
        *self = fast_two_sum(vh, w)
    }

    /// Implements multiplication of `TwoFloat` and `f64` using Joldes et al.
    /// (2017) Algorithm 9.
    fn MulAssign::mul_assign<'a>(self: &mut TwoFloat, rhs: &'a f64) {
        let (ch, cl1) = TwoFloat::new_mul(self.hi, *rhs).into();
        let cl3 = fma(self.lo, *rhs, cl1);
        *self = fast_two_sum(ch, cl3);
    }

    /// Implements multiplication of two `TwoFloat` values using Joldes et al.
    /// (2017) Algorithm 12.
    fn MulAssign::mul_assign<'a>(self: &mut TwoFloat, rhs: &'a TwoFloat) {
        let (ch, cl1) = TwoFloat::new_mul(self.hi, rhs.hi).into();
        let tl0 = self.lo * rhs.lo;
        let tl1 = fma(self.hi, rhs.lo, tl0);
        let cl2 = fma(self.lo, rhs.hi, tl1);
        let cl3 = cl1 + cl2;
        *self = fast_two_sum(ch, cl3)
    }

    /// Implements division of `TwoFloat` and `f64` using Joldes et al. (2017)
    /// Algorithm 15
    fn DivAssign::div_assign<'a>(self: &mut TwoFloat, rhs: &'a f64) {
        let th = self.hi / rhs;
        let (ph, pl) = TwoFloat::new_mul(th, *rhs).into();
        let dh = self.hi - ph;
        let dt = dh - pl;
        let d = dt + self.lo;
        let tl = d / rhs;
        *self = fast_two_sum(th, tl)
    }

    /// Former implements division from Joldes et al. (2017) Algorithm 18
    /// Now taken from qd crate using long division
    fn DivAssign::div_assign<'a>(self: &mut TwoFloat, rhs: &'a TwoFloat) {
        let q1 = self.hi / rhs.hi;
        let mut r = *self - (rhs* q1);
        let q2 = r.hi / rhs.hi;
        r -=rhs* q2;
        let q3 = r.hi / rhs.hi;
        *self = renorm3(q1, q2, q3)
    }

    fn RemAssign::rem_assign<'b>(self: &mut TwoFloat, rhs: &'b f64) {
        let quotient = (*self / rhs).trunc();
        *self -= quotient * rhs;
    }

    fn RemAssign::rem_assign<'a>(self: &mut TwoFloat, rhs: &'a TwoFloat) {
        let quotient = (*self / rhs).trunc();
        *self -= quotient * rhs;
    }
}

impl TwoFloat {
    /// Calculates Euclidean division, the matching method for `rem_euclid`.
    ///
    /// # Examples
    ///
    /// ```
    /// # use twofloat::TwoFloat;
    /// let a = TwoFloat::from(9.0);
    /// let b = TwoFloat::from(5.0);
    ///
    /// assert_eq!(a.div_euclid(b), TwoFloat::from(1.0));
    /// assert_eq!((-a).div_euclid(b), TwoFloat::from(-2.0));
    /// assert_eq!(a.div_euclid(-b), TwoFloat::from(-1.0));
    /// assert_eq!((-a).div_euclid(-b), TwoFloat::from(2.0));
    /// ```
    pub fn div_euclid(self, rhs: Self) -> Self {
        let quotient = (self / rhs).trunc();
        if (self - quotient * rhs) < 0.0 {
            if rhs > 0.0 {
                quotient - 1.0
            } else {
                quotient + 1.0
            }
        } else {
            quotient
        }
    }

    /// Calculates the least nonnegative remainder of `self (mod rhs)`.
    ///
    /// The return value `r` usually satisfies `0.0 <= r < rhs.abs()`,
    /// although the errors in numerical computation may result in violations
    /// of this constraint.
    ///
    /// # Examples
    ///
    /// ```
    /// # use twofloat::TwoFloat;
    /// let a = TwoFloat::from(9.0);
    /// let b = TwoFloat::from(5.0);
    ///
    /// assert_eq!(a.rem_euclid(b), TwoFloat::from(4.0));
    /// assert_eq!((-a).rem_euclid(b), TwoFloat::from(1.0));
    /// assert_eq!(a.rem_euclid(-b), TwoFloat::from(4.0));
    /// assert_eq!((-a).rem_euclid(-b), TwoFloat::from(1.0));
    /// ```
    pub fn rem_euclid(self, rhs: Self) -> Self {
        let remainder = self % rhs;
        if remainder < 0.0 {
            remainder + rhs.abs()
        } else {
            remainder
        }
    }
}

#[cfg(test)]
mod tests {
    use super::fast_two_sum;
    use crate::test_util::{get_valid_pair, repeated_test};

    #[test]
    fn fast_two_sum_test() {
        repeated_test(|| {
            let (a, b) = get_valid_pair(|x, y| (x + y).is_finite());
            let result = if a.abs() >= b.abs() {
                fast_two_sum(a, b)
            } else {
                fast_two_sum(b, a)
            };

            assert_eq_ulp!(
                result.hi(),
                a + b,
                1,
                "Incorrect result of fast_two_sum({}, {})",
                a,
                b
            );
            assert!(
                result.is_valid(),
                "Invalid result of fast_two_sum({}, {})",
                a,
                b
            );
        });
    }
}
