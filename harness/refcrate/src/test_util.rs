use rand::Rng;

const TEST_ITERS: usize = 100000;

pub fn random_float() -> f64 {
    let mut engine = rand::thread_rng();
    let mantissa_dist = rand::distributions::Uniform::new(0, 1u64 << 52);
    let exponent_dist = rand::distributions::Uniform::new(0, 2047u64);
    let x = f64::from_bits(engine.sample(mantissa_dist) | (engine.sample(exponent_dist) << 52));
    if engine.gen() {
        x
    } else {
        -x
    }
}

pub fn repeated_test<F>(test: F)
where
    F: Fn(),
{
    for _ in 0..TEST_ITERS {
        test();
    }
}

pub fn get_valid_pair<F: Fn(f64, f64) -> bool>(pred: F) -> (f64, f64) {
    loop {
        let a = random_float();
        let b = random_float();
        if pred(a, b) {
            return (a, b);
        }
    }
}

macro_rules! assert_eq_ulp {
    ($left:expr, $right:expr, $ulp:expr) => ({
        let left_val = $left;
        let right_val = $right;
        let ulp_val = $ulp;

        let a_bits = left_val.to_bits();
        let b_bits = right_val.to_bits();
        let fix_sign = |x| {
            if x & (1 << 63) == 0 {
                x
            } else {
                x ^ ((1 << 63) - 1)
            }
        };
        let diff = (fix_sign(a_bits) as i64)
            .saturating_sub(fix_sign(b_bits) as i64)
            .abs();
        if !(diff <= *ulp_val) {
            panic!(r#"assertion failed: `(left == right) ({:?} ulp)`
  left: `{:?}`,
 right: `{:?}`,
  diff: `{}`"#, ulp_val, left_val, right_val, diff)
        }
    });
    ($left:expr, $right:expr, $ulp:expr, $($args:tt,)+) => ({
        let left_val = $left;
        let right_val = $right;
        let ulp_val = $ulp;

        let a_bits = left_val.to_bits();
        let b_bits = right_val.to_bits();
        let fix_sign = |x| {
            if x & (1 << 63) == 0 {
                x
            } else {
                x ^ ((1 << 63) - 1)
            }
        };
        let diff = (fix_sign(a_bits) as i64)
            .saturating_sub(fix_sign(b_bits) as i64)
            .abs();
        if !(diff <= ulp_val) {
            panic!(r#"assertion failed: `(left == right) ({:?} ulp)`
  left: `{:?}`,
 right: `{:?}`,
  diff: `{}`: {}"#, ulp_val, left_val, right_val, diff, format_args!($($args,)+))
        }
    });
    ($left:expr, $right:expr, $ulp:expr, $($args:tt),+) => {
        assert_eq_ulp!($left, $right, $ulp, $($args,)+)
    };
}
