//! Verification-only instrumentation, compiled in only with the `verif_hooks`
//! cargo feature (off by default). Used by the runtime monitors in /verif;
//! not part of the public API contract.

use core::sync::atomic::{AtomicU32, Ordering};

use crate::TwoFloat;

/// Calls the crate-private fused multiply-add selected by the build configuration.
pub fn fma(x: f64, y: f64, z: f64) -> f64 {
    crate::arithmetic::verif_fma(x, y, z)
}

/// Builds a `TwoFloat` from raw words without any validity check.
pub fn from_raw(hi: f64, lo: f64) -> TwoFloat {
    TwoFloat { hi, lo }
}

/// Index into the `exp(n/128)-1` table (entry `n + 32`, 65 entries).
pub const SITE_EXPM1_128TH: usize = 0;
/// `b` part of `exp_half` (0 = table not used, 1..=31 = entry `b - 1`).
pub const SITE_EXP_HALF_N: usize = 1;
/// `a` part of `exp_half` (0 = table not used, 1..=44 = entry `a - 1`).
pub const SITE_EXP_16_N: usize = 2;
/// Reciprocal branch of `exp_half` (negative `n`).
pub const SITE_EXP_HALF_NEG: usize = 3;
/// `quadrant`: 0 = no reduction, 1..=8 = reduced with `quotient % 4` equal to
/// `index - 5` (-4..=3), 9 = rejected.
pub const SITE_QUADRANT: usize = 4;

const SITES: usize = 5;
const SLOTS: usize = 80;

#[allow(clippy::declare_interior_mutable_const)]
const ZERO: AtomicU32 = AtomicU32::new(0);
#[allow(clippy::declare_interior_mutable_const)]
const ROW: [AtomicU32; SLOTS] = [ZERO; SLOTS];
static COUNTERS: [[AtomicU32; SLOTS]; SITES] = [ROW; SITES];

/// Records that table/branch `index` of `site` was used.
pub fn touch(site: usize, index: usize) {
    if site < SITES && index < SLOTS {
        COUNTERS[site][index].fetch_add(1, Ordering::Relaxed);
    }
}

/// Returns the hit count of every slot of `site`.
pub fn snapshot(site: usize) -> [u32; SLOTS] {
    let mut out = [0u32; SLOTS];
    if site < SITES {
        for (o, c) in out.iter_mut().zip(COUNTERS[site].iter()) {
            *o = c.load(Ordering::Relaxed);
        }
    }
    out
}
