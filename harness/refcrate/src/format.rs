use core::fmt;

use crate::TwoFloat;

impl fmt::Display for TwoFloat {
    fn fmt(&self, f: &mut fmt::Formatter<'_>) -> fmt::Result {
        let sign_char = if self.lo().is_sign_positive() {
            '+'
        } else {
            '-'
        };
        if f.sign_plus() {
            match f.precision() {
                Some(p) => write!(
                    f,
                    "{:+.*} {} {:.*}",
                    p,
                    self.hi,
                    sign_char,
                    p,
                    libm::fabs(self.lo)
                ),
                None => write!(f, "{:+} {} {}", self.hi, sign_char, libm::fabs(self.lo)),
            }
        } else {
            match f.precision() {
                Some(p) => write!(
                    f,
                    "{:.*} {} {:.*}",
                    p,
                    self.hi,
                    sign_char,
                    p,
                    libm::fabs(self.lo)
                ),
                None => write!(f, "{} {} {}", self.hi, sign_char, libm::fabs(self.lo)),
            }
        }
    }
}

impl fmt::LowerExp for TwoFloat {
    fn fmt(&self, f: &mut fmt::Formatter<'_>) -> fmt::Result {
        let sign_char = if self.lo().is_sign_positive() {
            '+'
        } else {
            '-'
        };
        if f.sign_plus() {
            match f.precision() {
                Some(p) => write!(
                    f,
                    "{:+.*e} {} {:.*e}",
                    p,
                    self.hi,
                    sign_char,
                    p,
                    libm::fabs(self.lo)
                ),
                None => write!(f, "{:+e} {} {:e}", self.hi, sign_char, libm::fabs(self.lo)),
            }
        } else {
            match f.precision() {
                Some(p) => write!(
                    f,
                    "{:.*e} {} {:.*e}",
                    p,
                    self.hi,
                    sign_char,
                    p,
                    libm::fabs(self.lo)
                ),
                None => write!(f, "{:e} {} {:e}", self.hi, sign_char, libm::fabs(self.lo)),
            }
        }
    }
}

impl fmt::UpperExp for TwoFloat {
    fn fmt(&self, f: &mut fmt::Formatter<'_>) -> fmt::Result {
        let sign_char = if self.lo().is_sign_positive() {
            '+'
        } else {
            '-'
        };
        if f.sign_plus() {
            match f.precision() {
                Some(p) => write!(
                    f,
                    "{:+.*E} {} {:.*E}",
                    p,
                    self.hi,
                    sign_char,
                    p,
                    libm::fabs(self.lo)
                ),
                None => write!(f, "{:+E} {} {:E}", self.hi, sign_char, libm::fabs(self.lo)),
            }
        } else {
            match f.precision() {
                Some(p) => write!(
                    f,
                    "{:.*E} {} {:.*E}",
                    p,
                    self.hi,
                    sign_char,
                    p,
                    libm::fabs(self.lo)
                ),
                None => write!(f, "{:E} {} {:E}", self.hi, sign_char, libm::fabs(self.lo)),
            }
        }
    }
}

#[cfg(all(feature = "std", test))]
mod test {
    use crate::TwoFloat;

    #[test]
    fn display_test() {
        let value = TwoFloat { hi: 1.0, lo: 0.3 };
        assert_eq!(format!("{}", value), "1 + 0.3");
        assert_eq!(format!("{}", -value), "-1 - 0.3");
        assert_eq!(format!("{:+}", value), "+1 + 0.3");
        assert_eq!(format!("{:.2}", value), "1.00 + 0.30");
        assert_eq!(format!("{:.2}", -value), "-1.00 - 0.30");
        assert_eq!(format!("{:+.2}", value), "+1.00 + 0.30");
    }

    #[test]
    fn lowerexp_test() {
        let value = TwoFloat { hi: 1.0, lo: -0.3 };
        assert_eq!(format!("{:e}", value), "1e0 - 3e-1");
        assert_eq!(format!("{:e}", -value), "-1e0 + 3e-1");
        assert_eq!(format!("{:+e}", value), "+1e0 - 3e-1");
        assert_eq!(format!("{:.2e}", value), "1.00e0 - 3.00e-1");
        assert_eq!(format!("{:.2e}", -value), "-1.00e0 + 3.00e-1");
        assert_eq!(format!("{:+.2e}", value), "+1.00e0 - 3.00e-1");
    }

    #[test]
    fn upperexp_test() {
        let value = TwoFloat { hi: 1.0, lo: 0.3 };
        assert_eq!(format!("{:E}", value), "1E0 + 3E-1");
        assert_eq!(format!("{:E}", -value), "-1E0 - 3E-1");
        assert_eq!(format!("{:+E}", value), "+1E0 + 3E-1");
        assert_eq!(format!("{:.2E}", value), "1.00E0 + 3.00E-1");
        assert_eq!(format!("{:.2E}", -value), "-1.00E0 - 3.00E-1");
        assert_eq!(format!("{:+.2E}", value), "+1.00E0 + 3.00E-1");
    }
}
