use core::{convert::TryFrom, num::FpCategory};

use hexf::hexf64;
use num_traits::{Inv, Pow};

use crate::{consts, TwoFloat, TwoFloatError};

impl num_traits::Num for TwoFloat {
    type FromStrRadixErr = TwoFloatError;

    fn from_str_radix(_str: &str, _radix: u32) -> Result<Self, Self::FromStrRadixErr> {
        Err(TwoFloatError::ParseError)
    }
}

impl num_traits::Zero for TwoFloat {
    #[inline]
    fn zero() -> Self {
        TwoFloat::default()
    }

    #[inline]
    fn is_zero(&self) -> bool {
        *self == TwoFloat::default()
    }
}

impl num_traits::One for TwoFloat {
    #[inline]
    fn one() -> Self {
        TwoFloat { hi: 1.0, lo: 0.0 }
    }
}

impl num_traits::Bounded for TwoFloat {
    #[inline]
    fn min_value() -> TwoFloat {
        TwoFloat::MIN
    }

    #[inline]
    fn max_value() -> TwoFloat {
        TwoFloat::MAX
    }
}

impl num_traits::Signed for TwoFloat {
    #[inline]
    fn abs(&self) -> Self {
        TwoFloat::abs(self)
    }

    #[inline]
    fn abs_sub(&self, other: &Self) -> Self {
        TwoFloat::abs(&(self - other))
    }

    #[inline]
    fn signum(&self) -> Self {
        TwoFloat::signum(self)
    }

    #[inline]
    fn is_positive(&self) -> bool {
        TwoFloat::is_sign_positive(self)
    }

    #[inline]
    fn is_negative(&self) -> bool {
        TwoFloat::is_sign_negative(self)
    }
}

impl num_traits::FromPrimitive for TwoFloat {
    #[inline]
    fn from_i8(n: i8) -> Option<Self> {
        Some(TwoFloat::from(n))
    }

    #[inline]
    fn from_i16(n: i16) -> Option<Self> {
        Some(TwoFloat::from(n))
    }

    #[inline]
    fn from_i32(n: i32) -> Option<Self> {
        Some(TwoFloat::from(n))
    }

    #[inline]
    fn from_i64(n: i64) -> Option<Self> {
        Some(TwoFloat::from(n))
    }

    #[inline]
    fn from_i128(n: i128) -> Option<Self> {
        Some(TwoFloat::from(n))
    }

    fn from_isize(n: isize) -> Option<Self> {
        match core::mem::size_of::<isize>() {
            1 => Self::from_i8(n as i8),
            2 => Self::from_i16(n as i16),
            4 => Self::from_i32(n as i32),
            8 => Self::from_i64(n as i64),
            16 => Self::from_i128(n as i128),
            _ => None,
        }
    }

    #[inline]
    fn from_u8(n: u8) -> Option<Self> {
        Some(TwoFloat::from(n))
    }

    #[inline]
    fn from_u16(n: u16) -> Option<Self> {
        Some(TwoFloat::from(n))
    }

    #[inline]
    fn from_u32(n: u32) -> Option<Self> {
        Some(TwoFloat::from(n))
    }

    #[inline]
    fn from_u64(n: u64) -> Option<Self> {
        Some(TwoFloat::from(n))
    }

    #[inline]
    fn from_u128(n: u128) -> Option<Self> {
        Some(TwoFloat::from(n))
    }

    fn from_usize(n: usize) -> Option<Self> {
        match core::mem::size_of::<usize>() {
            1 => Self::from_u8(n as u8),
            2 => Self::from_u16(n as u16),
            4 => Self::from_u32(n as u32),
            8 => Self::from_u64(n as u64),
            16 => Self::from_u128(n as u128),
            _ => None,
        }
    }
}

impl num_traits::ToPrimitive for TwoFloat {
    #[inline]
    fn to_i8(&self) -> Option<i8> {
        i8::try_from(self).ok()
    }

    #[inline]
    fn to_i16(&self) -> Option<i16> {
        i16::try_from(self).ok()
    }

    #[inline]
    fn to_i32(&self) -> Option<i32> {
        i32::try_from(self).ok()
    }

    #[inline]
    fn to_i64(&self) -> Option<i64> {
        i64::try_from(self).ok()
    }

    #[inline]
    fn to_i128(&self) -> Option<i128> {
        i128::try_from(self).ok()
    }

    fn to_isize(&self) -> Option<isize> {
        match core::mem::size_of::<isize>() {
            1 => self.to_i8().map(|i| i as isize),
            2 => self.to_i16().map(|i| i as isize),
            4 => self.to_i32().map(|i| i as isize),
            8 => self.to_i64().map(|i| i as isize),
            16 => self.to_i128().map(|i| i as isize),
            _ => None,
        }
    }

    #[inline]
    fn to_u8(&self) -> Option<u8> {
        u8::try_from(self).ok()
    }

    #[inline]
    fn to_u16(&self) -> Option<u16> {
        u16::try_from(self).ok()
    }

    #[inline]
    fn to_u32(&self) -> Option<u32> {
        u32::try_from(self).ok()
    }

    #[inline]
    fn to_u64(&self) -> Option<u64> {
        u64::try_from(self).ok()
    }

    #[inline]
    fn to_u128(&self) -> Option<u128> {
        u128::try_from(self).ok()
    }

    fn to_usize(&self) -> Option<usize> {
        match core::mem::size_of::<usize>() {
            1 => self.to_u8().map(|u| u as usize),
            2 => self.to_u16().map(|u| u as usize),
            4 => self.to_u32().map(|u| u as usize),
            8 => self.to_u64().map(|u| u as usize),
            16 => self.to_u128().map(|u| u as usize),
            _ => None,
        }
    }
    #[inline]
    fn to_f64(&self) -> Option<f64> {
        Some(self.into())
    }
}

impl num_traits::NumCast for TwoFloat {
    fn from<T: num_traits::ToPrimitive>(n: T) -> Option<Self> {
        const INT_THRESHOLD: f64 = hexf64!("0x1.0p53");
        if let Some(f) = n.to_f64() {
            if libm::fabs(f) < INT_THRESHOLD {
                Some(f.into())
            } else if let Some(i) = n.to_i128() {
                Some(i.into())
            } else {
                Some(n.to_u128().map_or_else(|| f.into(), |u| u.into()))
            }
        } else if let Some(i) = n.to_i128() {
            Some(i.into())
        } else {
            n.to_u128().map(|u| u.into())
        }
    }
}

impl num_traits::FloatConst for TwoFloat {
    #[inline]
    fn E() -> Self {
        consts::E
    }

    #[inline]
    fn FRAC_1_PI() -> Self {
        consts::FRAC_1_PI
    }

    #[inline]
    fn FRAC_1_SQRT_2() -> Self {
        consts::FRAC_1_SQRT_2
    }

    #[inline]
    fn FRAC_2_PI() -> Self {
        consts::FRAC_2_PI
    }

    #[inline]
    fn FRAC_2_SQRT_PI() -> Self {
        consts::FRAC_2_SQRT_PI
    }

    #[inline]
    fn FRAC_PI_2() -> Self {
        consts::FRAC_PI_2
    }

    #[inline]
    fn FRAC_PI_3() -> Self {
        consts::FRAC_PI_3
    }

    #[inline]
    fn FRAC_PI_4() -> Self {
        consts::FRAC_PI_4
    }

    #[inline]
    fn FRAC_PI_6() -> Self {
        consts::FRAC_PI_6
    }

    #[inline]
    fn FRAC_PI_8() -> Self {
        consts::FRAC_PI_8
    }

    #[inline]
    fn LN_10() -> Self {
        consts::LN_10
    }

    #[inline]
    fn LN_2() -> Self {
        consts::LN_2
    }

    #[inline]
    fn LOG10_E() -> Self {
        consts::LOG10_E
    }

    #[inline]
    fn LOG2_E() -> Self {
        consts::LOG2_E
    }

    #[inline]
    fn PI() -> Self {
        consts::PI
    }

    #[inline]
    fn SQRT_2() -> Self {
        consts::SQRT_2
    }

    #[inline]
    fn TAU() -> Self {
        consts::TAU
    }

    #[inline]
    fn LOG10_2() -> Self {
        consts::LOG10_2
    }

    #[inline]
    fn LOG2_10() -> Self {
        consts::LOG2_10
    }
}

impl num_traits::float::FloatCore for TwoFloat {
    fn infinity() -> Self {
        TwoFloat::INFINITY
    }

    fn neg_infinity() -> Self {
        TwoFloat::NEG_INFINITY
    }

    #[inline]
    fn nan() -> Self {
        TwoFloat::NAN
    }

    #[inline]
    fn neg_zero() -> Self {
        TwoFloat { hi: -0.0, lo: 0.0 }
    }

    #[inline]
    fn min_value() -> Self {
        TwoFloat::MIN
    }

    #[inline]
    fn min_positive_value() -> Self {
        TwoFloat::MIN_POSITIVE
    }

    #[inline]
    fn epsilon() -> Self {
        TwoFloat::EPSILON
    }

    #[inline]
    fn max_value() -> Self {
        TwoFloat::MAX
    }

    #[inline]
    fn classify(self) -> FpCategory {
        self.hi.classify()
    }

    #[inline]
    fn to_degrees(self) -> Self {
        TwoFloat::to_degrees(self)
    }

    #[inline]
    fn to_radians(self) -> Self {
        TwoFloat::to_radians(self)
    }

    fn integer_decode(self) -> (u64, i16, i8) {
        panic!("cannot decode mantissa to u64")
    }

    #[inline]
    fn is_nan(self) -> bool {
        self.hi.is_nan() || self.lo.is_nan()
    }

    #[inline]
    fn is_infinite(self) -> bool {
        self.hi.is_infinite() || self.lo.is_infinite()
    }

    #[inline]
    fn is_finite(self) -> bool {
        self.is_valid()
    }

    #[inline]
    fn is_normal(self) -> bool {
        self.hi.is_normal()
    }

    #[inline]
    fn floor(self) -> Self {
        TwoFloat::floor(self)
    }

    #[inline]
    fn ceil(self) -> Self {
        TwoFloat::ceil(self)
    }

    #[inline]
    fn round(self) -> Self {
        TwoFloat::round(self)
    }

    #[inline]
    fn trunc(self) -> Self {
        TwoFloat::trunc(self)
    }

    #[inline]
    fn fract(self) -> Self {
        TwoFloat::fract(self)
    }

    #[inline]
    fn abs(self) -> Self {
        TwoFloat::abs(&self)
    }

    #[inline]
    fn signum(self) -> Self {
        TwoFloat::signum(&self)
    }

    #[inline]
    fn is_sign_positive(self) -> bool {
        TwoFloat::is_sign_positive(&self)
    }

    #[inline]
    fn is_sign_negative(self) -> bool {
        TwoFloat::is_sign_negative(&self)
    }

    #[inline]
    fn min(self, other: Self) -> Self {
        TwoFloat::min(self, other)
    }

    #[inline]
    fn max(self, other: Self) -> Self {
        TwoFloat::max(self, other)
    }

    #[inline]
    fn recip(self) -> Self {
        TwoFloat::recip(self)
    }

    #[inline]
    fn powi(self, exp: i32) -> Self {
        TwoFloat::powi(self, exp)
    }
}

impl num_traits::Float for TwoFloat {
    fn infinity() -> Self {
        TwoFloat::INFINITY
    }

    fn neg_infinity() -> Self {
        TwoFloat::NEG_INFINITY
    }

    #[inline]
    fn nan() -> Self {
        TwoFloat::NAN
    }

    #[inline]
    fn neg_zero() -> Self {
        TwoFloat { hi: -0.0, lo: 0.0 }
    }

    #[inline]
    fn min_value() -> Self {
        TwoFloat::MIN
    }

    #[inline]
    fn min_positive_value() -> Self {
        TwoFloat::MIN_POSITIVE
    }

    #[inline]
    fn epsilon() -> Self {
        TwoFloat::EPSILON
    }

    #[inline]
    fn max_value() -> Self {
        TwoFloat::MAX
    }

    #[inline]
    fn classify(self) -> FpCategory {
        self.hi.classify()
    }

    #[inline]
    fn to_degrees(self) -> Self {
        TwoFloat::to_degrees(self)
    }

    #[inline]
    fn to_radians(self) -> Self {
        TwoFloat::to_radians(self)
    }

    fn integer_decode(self) -> (u64, i16, i8) {
        panic!("cannot decode mantissa to u64")
    }

    #[inline]
    fn is_nan(self) -> bool {
        self.hi.is_nan() || self.lo.is_nan()
    }

    #[inline]
    fn is_infinite(self) -> bool {
        self.hi.is_infinite() || self.lo.is_infinite()
    }

    #[inline]
    fn is_finite(self) -> bool {
        self.is_valid()
    }

    #[inline]
    fn is_normal(self) -> bool {
        self.hi.is_normal()
    }

    #[inline]
    fn floor(self) -> Self {
        TwoFloat::floor(self)
    }

    #[inline]
    fn ceil(self) -> Self {
        TwoFloat::ceil(self)
    }

    #[inline]
    fn round(self) -> Self {
        TwoFloat::round(self)
    }

    #[inline]
    fn trunc(self) -> Self {
        TwoFloat::trunc(self)
    }

    #[inline]
    fn fract(self) -> Self {
        TwoFloat::fract(self)
    }

    #[inline]
    fn abs(self) -> Self {
        TwoFloat::abs(&self)
    }

    #[inline]
    fn signum(self) -> Self {
        TwoFloat::signum(&self)
    }

    #[inline]
    fn is_sign_positive(self) -> bool {
        TwoFloat::is_sign_positive(&self)
    }

    #[inline]
    fn is_sign_negative(self) -> bool {
        TwoFloat::is_sign_negative(&self)
    }

    #[inline]
    fn min(self, other: Self) -> Self {
        TwoFloat::min(self, other)
    }

    #[inline]
    fn max(self, other: Self) -> Self {
        TwoFloat::max(self, other)
    }

    #[inline]
    fn recip(self) -> Self {
        TwoFloat::recip(self)
    }

    #[inline]
    fn powi(self, exp: i32) -> Self {
        TwoFloat::powi(self, exp)
    }

    #[inline]
    fn mul_add(self, a: Self, b: Self) -> Self {
        (self * a) + b
    }

    #[inline]
    fn powf(self, n: Self) -> Self {
        TwoFloat::powf(self, n)
    }

    #[inline]
    fn sqrt(self) -> Self {
        TwoFloat::sqrt(self)
    }

    #[inline]
    fn exp(self) -> Self {
        TwoFloat::exp(self)
    }

    #[inline]
    fn exp2(self) -> Self {
        TwoFloat::exp2(self)
    }

    #[inline]
    fn ln(self) -> Self {
        TwoFloat::ln(self)
    }

    #[inline]
    fn log(self, base: Self) -> Self {
        TwoFloat::log(self, base)
    }

    #[inline]
    fn log2(self) -> Self {
        TwoFloat::log2(self)
    }

    #[inline]
    fn log10(self) -> Self {
        TwoFloat::log10(self)
    }

    #[inline]
    fn abs_sub(self, other: Self) -> Self {
        TwoFloat::abs(&(self - other))
    }

    #[inline]
    fn cbrt(self) -> Self {
        TwoFloat::cbrt(self)
    }

    #[inline]
    fn hypot(self, other: Self) -> Self {
        TwoFloat::hypot(self, other)
    }

    #[inline]
    fn sin(self) -> Self {
        TwoFloat::sin(self)
    }

    #[inline]
    fn cos(self) -> Self {
        TwoFloat::cos(self)
    }

    #[inline]
    fn tan(self) -> Self {
        TwoFloat::tan(self)
    }

    #[inline]
    fn asin(self) -> Self {
        TwoFloat::asin(self)
    }

    #[inline]
    fn acos(self) -> Self {
        TwoFloat::acos(self)
    }

    #[inline]
    fn atan(self) -> Self {
        TwoFloat::atan(self)
    }

    #[inline]
    fn atan2(self, other: Self) -> Self {
        TwoFloat::atan2(self, other)
    }

    #[inline]
    fn sin_cos(self) -> (Self, Self) {
        TwoFloat::sin_cos(self)
    }

    #[inline]
    fn exp_m1(self) -> Self {
        TwoFloat::exp_m1(self)
    }

    #[inline]
    fn ln_1p(self) -> Self {
        TwoFloat::ln_1p(self)
    }

    #[inline]
    fn sinh(self) -> Self {
        TwoFloat::sinh(self)
    }

    #[inline]
    fn cosh(self) -> Self {
        TwoFloat::cosh(self)
    }

    #[inline]
    fn tanh(self) -> Self {
        TwoFloat::tanh(self)
    }

    #[inline]
    fn asinh(self) -> Self {
        TwoFloat::asinh(self)
    }

    #[inline]
    fn acosh(self) -> Self {
        TwoFloat::acosh(self)
    }

    #[inline]
    fn atanh(self) -> Self {
        TwoFloat::atanh(self)
    }
}

unary_ops! {
    fn Inv::inv(self: &TwoFloat) -> TwoFloat {
        TwoFloat::recip(*self)
    }
}

binary_ops! {
    fn Pow::pow<'a, 'b>(self: &'a TwoFloat, rhs: &'b i8) -> TwoFloat {
        TwoFloat::powi(*self, *rhs as i32)
    }

    fn Pow::pow<'a, 'b>(self: &'a TwoFloat, rhs: &'b i16) -> TwoFloat {
        TwoFloat::powi(*self, *rhs as i32)
    }

    fn Pow::pow<'a, 'b>(self: &'a TwoFloat, rhs: &'b i32) -> TwoFloat {
        TwoFloat::powi(*self, *rhs)
    }

    fn Pow::pow<'a, 'b>(self: &'a TwoFloat, rhs: &'b u8) -> TwoFloat {
        TwoFloat::powi(*self, *rhs as i32)
    }

    fn Pow::pow<'a, 'b>(self: &'a TwoFloat, rhs: &'b u16) -> TwoFloat {
        TwoFloat::powi(*self, *rhs as i32)
    }
}

#[cfg(feature = "math_funcs")]
binary_ops! {
    fn Pow::pow<'a, 'b>(self: &'a TwoFloat, rhs: &'b f64) -> TwoFloat {
        TwoFloat::powf(*self, (*rhs).into())
    }

    fn Pow::pow<'a, 'b>(self: &'a TwoFloat, rhs: &'b TwoFloat) -> TwoFloat {
        TwoFloat::powf(*self, *rhs)
    }
}
