use core::convert::{From, TryFrom};

use crate::{base::no_overlap, TwoFloat, TwoFloatError};

macro_rules! from_conversion {
    (|$source_i:ident : TwoFloat| -> $dest:tt $code:block) => {
        impl From<TwoFloat> for $dest {
            fn from($source_i: TwoFloat) -> Self $code
        }

        impl<'a> From<&'a TwoFloat> for $dest {
            fn from($source_i: &'a TwoFloat) -> Self $code
        }
    };
    (|$source_i:ident: TwoFloat| -> Result<$dest:tt, $err:tt> $code:block) => {
        impl TryFrom<TwoFloat> for $dest {
            type Error = $err;

            fn try_from($source_i: TwoFloat) -> Result<Self, Self::Error> $code
        }

        impl<'a> TryFrom<&'a TwoFloat> for $dest {
            type Error = $err;

            fn try_from($source_i: &'a TwoFloat) -> Result<Self, Self::Error> $code
        }
    };
}

from_conversion!(|value: TwoFloat| -> (f64, f64) { (value.hi, value.lo) });

impl TryFrom<(f64, f64)> for TwoFloat {
    type Error = TwoFloatError;

    fn try_from(value: (f64, f64)) -> Result<Self, Self::Error> {
        if no_overlap(value.0, value.1) {
            Ok(Self {
                hi: value.0,
                lo: value.1,
            })
        } else {
            Err(Self::Error::ConversionError {})
        }
    }
}

from_conversion!(|value: TwoFloat| -> [f64; 2] { [value.hi, value.lo] });

impl TryFrom<[f64; 2]> for TwoFloat {
    type Error = TwoFloatError;

    fn try_from(value: [f64; 2]) -> Result<Self, Self::Error> {
        if no_overlap(value[0], value[1]) {
            Ok(Self {
                hi: value[0],
                lo: value[1],
            })
        } else {
            Err(Self::Error::ConversionError {})
        }
    }
}

macro_rules! float_convert {
    ($type:tt) => {
        impl From<$type> for TwoFloat {
            fn from(value: $type) -> Self {
                Self {
                    hi: value as f64,
                    lo: 0.0,
                }
            }
        }

        from_conversion!(|value: TwoFloat| -> $type { value.hi as $type });
    };
}

float_convert!(f64);
float_convert!(f32);

macro_rules! int_convert {
    ($type:tt) => {
        impl From<$type> for TwoFloat {
            fn from(value: $type) -> Self {
                Self {
                    hi: value as f64,
                    lo: 0.0,
                }
            }
        }

        from_conversion!(|value: TwoFloat| -> Result<$type, TwoFloatError> {
            const LOWER_BOUND: f64 = $type::MIN as f64;
            const UPPER_BOUND: f64 = $type::MAX as f64;
            let truncated = value.trunc();
            if !(LOWER_BOUND..=UPPER_BOUND).contains(&truncated) {
                Err(Self::Error::ConversionError {})
            } else {
                Ok(truncated.hi() as $type)
            }
        });
    };
}

int_convert!(i32);
int_convert!(i16);
int_convert!(i8);
int_convert!(u32);
int_convert!(u16);
int_convert!(u8);

macro_rules! bigint_convert {
    ($type:tt) => {
        impl From<$type> for TwoFloat {
            fn from(value: $type) -> Self {
                let a = value as f64;
                let b = if a == $type::MAX as f64 {
                    -((($type::MAX - value) + 1) as f64)
                } else if value >= a as $type {
                    (value - a as $type) as f64
                } else {
                    -((a as $type - value) as f64)
                };

                // the rounded remainder can land on the half-ulp tie next to an odd `a`
                crate::arithmetic::fast_two_sum(a, b)
            }
        }

        from_conversion!(|value: TwoFloat| -> Result<$type, TwoFloatError> {
            const LOWER_BOUND: TwoFloat = TwoFloat {
                hi: $type::MIN as f64,
                lo: 0.0,
            };

            const UPPER_BOUND: TwoFloat = TwoFloat {
                hi: $type::MAX as f64,
                lo: -1.0,
            };

            let truncated = value.trunc();
            if !(LOWER_BOUND..=UPPER_BOUND).contains(&truncated) {
                Err(Self::Error::ConversionError {})
            } else if truncated.hi() == UPPER_BOUND.hi() {
                Ok($type::MAX - (-truncated.lo() as $type) + 1)
            } else if truncated.lo() >= 0.0 {
                Ok(truncated.hi() as $type + truncated.lo() as $type)
            } else {
                Ok(truncated.hi() as $type - (-truncated.lo()) as $type)
            }
        });
    };
}

bigint_convert!(i128);
bigint_convert!(i64);
bigint_convert!(u128);
bigint_convert!(u64);
