use core::{cmp::Ordering, num::FpCategory};

use hexf::hexf64;

use crate::TwoFloat;

const DEG_PER_RAD: TwoFloat = TwoFloat {
    hi: hexf64!("0x1.ca5dc1a63c1f8p5"),
    lo: hexf64!("-0x1.1e7ab456405f9p-49"),
};

const RAD_PER_DEG: TwoFloat = TwoFloat {
    hi: hexf64!("0x1.1df46a2529d39p-6"),
    lo: hexf64!("0x1.5c1d8becdd291p-62"),
};

const EXPONENT_MASK: u64 = 0x7ff;
const MANTISSA_MASK: u64 = (1 << 52) - 1;

/// Checks if two `f64` values do not overlap, with the first value being the
/// more significant. This matches definition 1.4 in Joldes et al. (2017).
///
/// # Examples
///
/// ```
/// # use twofloat::no_overlap;
/// let a = no_overlap(1.0, -1e-200);
/// let b = no_overlap(1e-200, 1.0);
/// let c = no_overlap(1.0, 0.25);
///
/// assert!(a);
/// assert!(!b);
/// assert!(!c);
/// ```
pub fn no_overlap(a: f64, b: f64) -> bool {
    match a.classify() {
        FpCategory::Normal => {
            if b == 0.0 {
                return true;
            }
            let bits = a.to_bits();
            let biased_exponent = ((bits >> 52) & EXPONENT_MASK) as i16;
            let offset = if (bits & MANTISSA_MASK) == 0
                && libm::copysign(1.0, a) != libm::copysign(1.0, b)
            {
                1077
            } else {
                1076
            };
            let limit = libm::exp2((biased_exponent - offset) as f64);
            match libm::fabs(b).partial_cmp(&limit) {
                Some(Ordering::Less) => true,
                Some(Ordering::Equal) => (bits & 1) == 0,
                _ => false,
            }
        }
        FpCategory::Subnormal | FpCategory::Zero => b == 0.0,
        _ => false,
    }
}

impl TwoFloat {
    /// Mantissa size of the double-double structure of TwoFloat
    /// aka the number of significant digits in base 2
    pub const MANTISSA_DIGITS: u32 = 106;

    /// Smallest finite `TwoFloat` value.
    pub const MIN: Self = Self {
        hi: f64::MIN,
        lo: hexf64!("-0x1.fffffffffffffp+969"),
    };

    /// Smallest positive normal `TwoFloat` value.
    pub const MIN_POSITIVE: Self = Self {
        hi: f64::MIN_POSITIVE,
        lo: 0.0,
    };

    /// Largest finite `TwoFloat` value.
    pub const MAX: Self = Self {
        hi: f64::MAX,
        lo: hexf64!("0x1.fffffffffffffp+969"),
    };

    /// Represents an error value equivalent to `f64::NAN`.
    pub const NAN: Self = Self {
        hi: f64::NAN,
        lo: f64::NAN,
    };

    /// Represents the difference between 1.0 and the next representable normal value.
    pub const EPSILON: Self = Self {
        hi: f64::MIN_POSITIVE,
        lo: 0.0,
    };

    /// A positive infinite value
    pub const INFINITY: Self = Self {
        hi: f64::INFINITY,
        lo: f64::INFINITY,
    };

    /// A negative infinite value
    pub const NEG_INFINITY: Self = Self {
        hi: f64::NEG_INFINITY,
        lo: f64::NEG_INFINITY,
    };

    /// Creates a new TwoFloat from a constant `f64` value.
    ///
    /// # Examples
    ///
    /// ```
    /// # use twofloat::TwoFloat;
    /// const value: TwoFloat = TwoFloat::from_f64(1.0);
    /// assert_eq!(value.hi(), 1.0);
    /// ```
    pub const fn from_f64(value: f64) -> Self {
        TwoFloat { hi: value, lo: 0.0 }
    }

    /// Returns the high word of `self`.
    ///
    /// # Examples
    ///
    /// ```
    /// # use twofloat::TwoFloat;
    /// let value = TwoFloat::new_add(1.0, -1.0e-200);
    /// assert_eq!(value.hi(), 1.0);
    /// ```
    pub fn hi(&self) -> f64 {
        self.hi
    }

    /// Returns the low word of `self`.
    ///
    /// # Examples
    ///
    /// ```
    /// # use twofloat::TwoFloat;
    /// let value = TwoFloat::new_add(1.0, -1.0e-200);
    /// assert_eq!(value.lo(), -1.0e-200);
    /// ```
    pub fn lo(&self) -> f64 {
        self.lo
    }

    /// Returns `true` if `self` is a valid value, where both components are
    /// finite (not infinity or `NAN`).
    ///
    /// # Examples
    ///
    /// ```
    /// # use twofloat::TwoFloat;
    /// let a = TwoFloat::new_add(1.0, 1.0e-300).is_valid();
    /// let b = TwoFloat::new_mul(1.0e300, 1.0e300).is_valid();
    ///
    /// assert!(a);
    /// assert!(!b);
    /// ```
    pub fn is_valid(&self) -> bool {
        self.hi.is_finite() && self.lo.is_finite() && no_overlap(self.hi, self.lo)
    }

    /// Returns the minimum of two numbers. If one of the arguments is `NAN`,
    /// the other is returned.
    ///
    /// # Examples
    ///
    /// ```
    /// # use twofloat::TwoFloat;
    /// let a = TwoFloat::new_add(35.2, 1e-84);
    /// let b = TwoFloat::new_add(35.2, -1e-93);
    ///
    /// assert_eq!(a.min(b), b);
    /// ```
    pub fn min(self, other: Self) -> Self {
        if !self.is_valid() {
            other
        } else if !other.is_valid() || self <= other {
            self
        } else {
            other
        }
    }

    /// Returns the maximum of two numbers. If one of the arguments is `NAN`,
    /// the other is returned.
    ///
    /// # Examples
    ///
    /// ```
    /// # use twofloat::TwoFloat;
    /// let a = TwoFloat::new_add(35.2, 1e-84);
    /// let b = TwoFloat::new_add(35.2, -1e-93);
    ///
    /// assert_eq!(a.max(b), a);
    /// ```
    pub fn max(self, other: Self) -> Self {
        if !self.is_valid() {
            other
        } else if !other.is_valid() || self >= other {
            self
        } else {
            other
        }
    }

    /// Converts degrees to radians.
    ///
    /// # Examples
    ///
    /// ```
    /// # use twofloat::TwoFloat;
    /// let a = TwoFloat::from(90.0);
    /// let b = a.to_radians();
    ///
    /// assert!((b - twofloat::consts::FRAC_PI_2).abs() < 1e-16);
    /// ```
    pub fn to_radians(self) -> Self {
        self * RAD_PER_DEG
    }

    /// Converts radians to degrees.
    ///
    /// # Examples
    ///
    /// ```
    /// let a = twofloat::consts::PI;
    /// let b = a.to_degrees();
    ///
    /// assert!((b - 180.0).abs() < 1e-16);
    /// ```
    pub fn to_degrees(self) -> Self {
        self * DEG_PER_RAD
    }

    /// Takes the reciprocal (inverse) of the number, `1/x`.
    ///
    /// # Examples
    ///
    /// ```
    /// # use twofloat::TwoFloat;
    /// let a = TwoFloat::new_add(67.2, 5.7e-53);
    /// let b = a.recip();
    /// let difference = b.recip() - a;
    ///
    /// assert!(difference.abs() < 1e-16);
    /// ```
    pub fn recip(self) -> Self {
        1.0 / self
    }

    /// Raises the number to an integer power. Returns a NAN value for 0^0.
    ///
    /// # Examples
    ///
    /// ```
    /// # use twofloat::TwoFloat;
    /// let a = TwoFloat::from(2.0).powi(3);
    /// let b = TwoFloat::from(0.0).powi(0);
    ///
    /// assert!(a - TwoFloat::from(8.0) <= 1e-16);
    /// assert!(!b.is_valid());
    /// ```
    pub fn powi(self, n: i32) -> Self {
        match n {
            0 => {
                if self.hi == 0.0 && self.lo == 0.0 {
                    Self::NAN
                } else {
                    Self::from(1.0)
                }
            }
            1 => self,
            -1 => self.recip(),
            _ => {
                let mut result = Self::from(1.0);
                let mut n_pos = n.unsigned_abs();
                let mut value = self;
                while n_pos > 0 {
                    if (n_pos & 1) != 0 {
                        result *= &value;
                    }
                    value *= value;
                    n_pos >>= 1;
                }
                if n > 0 {
                    result
                } else {
                    result.recip()
                }
            }
        }
    }
}

impl PartialEq<f64> for TwoFloat {
    fn eq(&self, other: &f64) -> bool {
        self.hi.eq(other) && self.lo == 0.0
    }
}

impl PartialEq<TwoFloat> for f64 {
    fn eq(&self, other: &TwoFloat) -> bool {
        self.eq(&other.hi) && other.lo == 0.0
    }
}

impl PartialEq<TwoFloat> for TwoFloat {
    fn eq(&self, other: &TwoFloat) -> bool {
        if self.is_valid() != other.is_valid()
            || self.hi.is_nan()
            || self.lo.is_nan()
            || other.hi.is_nan()
            || other.lo.is_nan()
        {
            false
        } else if self.is_valid() {
            self.hi == other.hi && self.lo == other.lo
        } else {
            // all infinities compare equal
            true
        }
    }
}

impl PartialOrd<f64> for TwoFloat {
    fn partial_cmp(&self, other: &f64) -> Option<Ordering> {
        let hi_cmp = self.hi.partial_cmp(other);
        if hi_cmp == Some(Ordering::Equal) {
            self.lo.partial_cmp(&0.0)
        } else {
            hi_cmp
        }
    }
}

impl PartialOrd<TwoFloat> for f64 {
    fn partial_cmp(&self, other: &TwoFloat) -> Option<Ordering> {
        let hi_cmp = self.partial_cmp(&other.hi);
        if hi_cmp == Some(Ordering::Equal) {
            0.0.partial_cmp(&other.lo)
        } else {
            hi_cmp
        }
    }
}

impl PartialOrd<TwoFloat> for TwoFloat {
    fn partial_cmp(&self, other: &TwoFloat) -> Option<Ordering> {
        if self.hi.is_nan() || self.lo.is_nan() || other.hi.is_nan() || other.lo.is_nan() {
            return None;
        }

        match (self.is_valid(), other.is_valid()) {
            (true, true) => {
                let hi_cmp = self.hi.partial_cmp(&other.hi);
                if matches!(hi_cmp, Some(Ordering::Equal)) {
                    self.lo.partial_cmp(&other.lo)
                } else {
                    hi_cmp
                }
            }
            (true, false) => Some(Ordering::Less),
            (false, true) => Some(Ordering::Greater),
            (false, false) => Some(Ordering::Equal),
        }
    }
}

#[cfg(test)]
mod tests {
    use hexf::hexf64;

    use super::{no_overlap, TwoFloat};

    const ONE: f64 = 1.0;
    const ONE_NEXT: f64 = hexf64!("0x1.0000000000001p+0");
    const ONE_NEXT_2: f64 = hexf64!("0x1.0000000000002p+0");
    const ONE_PREV: f64 = hexf64!("0x1.fffffffffffffp-1");
    const LOWER_MID_DIFF: f64 = hexf64!("0x1p-54");
    const LOWER_MID_DIFF_NEXT: f64 = hexf64!("0x1.0000000000001p-54");
    const UPPER_MID_DIFF: f64 = hexf64!("0x1p-53");
    const UPPER_MID_DIFF_NEXT: f64 = hexf64!("0x1.0000000000001p-53");
    const OFFSET_1_4: f64 = hexf64!("0x1p-54");
    const OFFSET_3_4: f64 = hexf64!("0x1.8p-53");

    #[test]
    fn no_overlap_test() {
        assert!(!no_overlap(1.0, hexf64!("0x1p-52")));
        assert!(!no_overlap(-1.0, hexf64!("-0x1p-52")));
        assert!(no_overlap(1.0, UPPER_MID_DIFF));
        assert!(!no_overlap(1.0, UPPER_MID_DIFF_NEXT));
        assert!(no_overlap(1.0, -LOWER_MID_DIFF));
        assert!(!no_overlap(1.0, -LOWER_MID_DIFF_NEXT));
        assert!(!no_overlap(1.0, -UPPER_MID_DIFF));
        assert!(!no_overlap(ONE_NEXT, UPPER_MID_DIFF));
        assert!(!no_overlap(ONE_NEXT, -UPPER_MID_DIFF));
        assert!(no_overlap(ONE_NEXT_2, UPPER_MID_DIFF));
        assert!(no_overlap(ONE_NEXT_2, -UPPER_MID_DIFF));
        assert!(no_overlap(-1.0, LOWER_MID_DIFF));
        assert!(!no_overlap(-1.0, LOWER_MID_DIFF_NEXT));
        assert!(!no_overlap(-1.0, UPPER_MID_DIFF));
        assert!(no_overlap(-1.0, -UPPER_MID_DIFF));
        assert!(!no_overlap(-1.0, -UPPER_MID_DIFF_NEXT));
        assert!(!no_overlap(-ONE_NEXT, hexf64!("0x1p-53")));
        assert!(!no_overlap(-ONE_NEXT, hexf64!("-0x1p-53")));
        assert!(no_overlap(-ONE_NEXT_2, hexf64!("-0x1p-53")));
        assert!(no_overlap(-ONE_NEXT_2, hexf64!("0x1p-53")));
        assert!(no_overlap(1.0, hexf64!("0x1p-1023")));
        assert!(no_overlap(1.0, hexf64!("-0x1p-1023")));
        assert!(no_overlap(1.0, 0.0));
        assert!(no_overlap(-1.0, -0.0));

        assert!(!no_overlap(hexf64!("0x1p-970"), hexf64!("0x1p-1022")));
        assert!(no_overlap(hexf64!("0x1p-970"), hexf64!("0x1p-1023")));
        assert!(!no_overlap(hexf64!("0x1p-971"), hexf64!("0x1p-1023")));
        assert!(no_overlap(hexf64!("0x1p-971"), hexf64!("0x1p-1024")));

        assert!(no_overlap(hexf64!("0x1p-1023"), 0.0));
        assert!(!no_overlap(hexf64!("0x1p-1023"), f64::MIN));

        assert!(!no_overlap(f64::INFINITY, 1.0));
        assert!(!no_overlap(f64::NAN, 1.0));

        assert!(!no_overlap(0.0, 1.0));
        assert!(!no_overlap(0.0, f64::MIN));
        assert!(no_overlap(0.0, 0.0));
    }

    #[test]
    fn default_test() {
        let value: TwoFloat = Default::default();
        assert_eq!(value, TwoFloat::from(0));
    }

    #[test]
    fn min_test() {
        assert!(TwoFloat::MIN.is_valid());
    }

    #[test]
    fn max_test() {
        assert!(TwoFloat::MAX.is_valid());
    }

    #[test]
    fn midpoint_eq_test() {
        let values = [
            TwoFloat::new_add(ONE, UPPER_MID_DIFF),
            TwoFloat::new_add(ONE_NEXT, -UPPER_MID_DIFF),
            TwoFloat::new_sub(ONE, -UPPER_MID_DIFF),
            TwoFloat::new_sub(ONE_NEXT, UPPER_MID_DIFF),
            TwoFloat {
                hi: ONE,
                lo: UPPER_MID_DIFF,
            },
        ];

        assert!(values.iter().all(|v| v.is_valid()));
        values
            .iter()
            .for_each(|&a| values.iter().for_each(|&b| assert_eq!(a, b)));
    }

    #[test]
    fn midpoint_eq_test_next() {
        let values = [
            TwoFloat::new_add(ONE_NEXT, UPPER_MID_DIFF),
            TwoFloat::new_add(ONE_NEXT_2, -UPPER_MID_DIFF),
            TwoFloat::new_sub(ONE_NEXT, -UPPER_MID_DIFF),
            TwoFloat::new_sub(ONE_NEXT_2, UPPER_MID_DIFF),
            TwoFloat {
                hi: ONE_NEXT_2,
                lo: -UPPER_MID_DIFF,
            },
        ];

        assert!(values.iter().all(|v| v.is_valid()));
        values
            .iter()
            .for_each(|&a| values.iter().for_each(|&b| assert_eq!(a, b)));
    }

    #[test]
    fn midpoint_eq_test_prev() {
        let values = [
            TwoFloat::new_add(ONE, -LOWER_MID_DIFF),
            TwoFloat::new_add(ONE_PREV, LOWER_MID_DIFF),
            TwoFloat::new_sub(ONE, LOWER_MID_DIFF),
            TwoFloat::new_sub(ONE_PREV, -LOWER_MID_DIFF),
        ];

        assert!(values.iter().all(|v| v.is_valid()));
        values
            .iter()
            .for_each(|&a| values.iter().for_each(|&b| assert_eq!(a, b)));
    }

    #[test]
    fn quarter_eq_test() {
        let values = [
            TwoFloat::new_add(ONE, OFFSET_3_4),
            TwoFloat::new_add(ONE_NEXT, -OFFSET_1_4),
            TwoFloat::new_sub(ONE, -OFFSET_3_4),
            TwoFloat::new_sub(ONE_NEXT, OFFSET_1_4),
            TwoFloat {
                hi: ONE_NEXT,
                lo: -OFFSET_1_4,
            },
        ];

        assert!(values.iter().all(|v| v.is_valid()));
        values
            .iter()
            .for_each(|&a| values.iter().for_each(|&b| assert_eq!(a, b)));
    }

    #[test]
    fn ord_test() {
        let lower_values = [
            TwoFloat::new_add(ONE, OFFSET_1_4),
            TwoFloat::new_add(ONE_NEXT, -OFFSET_3_4),
            TwoFloat::new_sub(ONE, -OFFSET_1_4),
            TwoFloat::new_sub(ONE_NEXT, OFFSET_3_4),
            TwoFloat {
                hi: ONE,
                lo: OFFSET_1_4,
            },
        ];
        assert!(lower_values.iter().all(|v| v.is_valid()));

        let mid_values = [
            TwoFloat::new_add(ONE, UPPER_MID_DIFF),
            TwoFloat::new_add(ONE_NEXT, -UPPER_MID_DIFF),
            TwoFloat::new_sub(ONE, -UPPER_MID_DIFF),
            TwoFloat::new_sub(ONE_NEXT, UPPER_MID_DIFF),
            TwoFloat {
                hi: ONE,
                lo: UPPER_MID_DIFF,
            },
        ];
        assert!(mid_values.iter().all(|v| v.is_valid()));

        let upper_values = [
            TwoFloat::new_add(ONE, OFFSET_3_4),
            TwoFloat::new_add(ONE_NEXT, -OFFSET_1_4),
            TwoFloat::new_sub(ONE, -OFFSET_3_4),
            TwoFloat::new_sub(ONE_NEXT, OFFSET_1_4),
            TwoFloat {
                hi: ONE_NEXT,
                lo: -OFFSET_1_4,
            },
        ];
        assert!(upper_values.iter().all(|v| v.is_valid()));

        lower_values.iter().for_each(|&a| {
            mid_values.iter().for_each(|&b| assert!(a < b));
            upper_values.iter().for_each(|&b| assert!(a < b));
        });

        mid_values.iter().for_each(|&a| {
            lower_values.iter().for_each(|&b| assert!(a > b));
            upper_values.iter().for_each(|&b| assert!(a < b));
        });

        upper_values.iter().for_each(|&a| {
            lower_values.iter().for_each(|&b| assert!(a > b));
            mid_values.iter().for_each(|&b| assert!(a > b));
        });
    }
}
