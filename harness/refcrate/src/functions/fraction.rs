use crate::{arithmetic::fast_two_sum, TwoFloat};

impl TwoFloat {
    /// Returns the fractional part of the number.
    ///
    /// # Examples
    ///
    /// ```
    /// # use twofloat::TwoFloat;
    /// let a = TwoFloat::new_add(1.0, 1e-200).fract();
    /// let b = TwoFloat::new_add(-1.0, 1e-200).fract();
    ///
    /// assert_eq!(a, TwoFloat::from(1e-200));
    /// assert_eq!(b, TwoFloat::new_add(-1.0, 1e-200));
    /// ```
    pub fn fract(self) -> Self {
        let hi_fract = libm::modf(self.hi).0;
        let lo_fract = libm::modf(self.lo).0;
        if lo_fract == 0.0 {
            hi_fract.into()
        } else if hi_fract == 0.0 {
            match (self.hi >= 0.0, self.lo >= 0.0) {
                (true, false) => fast_two_sum(1.0, lo_fract),
                (false, true) => fast_two_sum(-1.0, lo_fract),
                _ => libm::modf(self.lo).0.into(),
            }
        } else {
            fast_two_sum(libm::modf(self.hi).0, self.lo)
        }
    }

    /// Returns the integer part of the number.
    ///
    /// # Examples
    ///
    /// ```
    /// # use twofloat::TwoFloat;
    /// let a = TwoFloat::new_add(1.0, 1e-200).trunc();
    /// let b = TwoFloat::new_add(1.0, -1e-200).trunc();
    ///
    /// assert_eq!(a, TwoFloat::from(1.0));
    /// assert_eq!(b, TwoFloat::from(0.0));
    /// ```
    pub fn trunc(self) -> Self {
        if self.is_sign_positive() {
            self.floor()
        } else {
            self.ceil()
        }
    }

    /// Returns the smallest integer greater than or equal to the number.
    ///
    /// # Examples
    ///
    /// ```
    /// # use twofloat::TwoFloat;
    /// let a = TwoFloat::new_add(1.0, 1e-200).ceil();
    /// let b = TwoFloat::new_add(1.0, -1e-200).ceil();
    /// let c = TwoFloat::new_add(-1.0, 1e-200).ceil();
    ///
    /// assert_eq!(a, TwoFloat::from(2.0));
    /// assert_eq!(b, TwoFloat::from(1.0));
    /// assert_eq!(c, TwoFloat::from(0.0));
    /// ```
    pub fn ceil(self) -> Self {
        if libm::modf(self.lo).0 == 0.0 {
            Self {
                hi: libm::ceil(self.hi),
                lo: self.lo,
            }
        } else if libm::modf(self.hi).0 == 0.0 {
            fast_two_sum(self.hi, libm::ceil(self.lo))
        } else {
            libm::ceil(self.hi).into()
        }
    }

    /// Returns the smallest integer less than or equal to the number.
    ///
    /// # Examples
    ///
    /// ```
    /// # use twofloat::TwoFloat;
    /// let a = TwoFloat::new_add(1.0, 1e-200).floor();
    /// let b = TwoFloat::new_add(1.0, -1e-200).floor();
    /// let c = TwoFloat::new_add(-1.0, 1e-200).floor();
    ///
    /// assert_eq!(a, TwoFloat::from(1.0));
    /// assert_eq!(b, TwoFloat::from(0.0));
    /// assert_eq!(c, TwoFloat::from(-1.0));
    /// ```
    pub fn floor(self) -> Self {
        if libm::modf(self.lo).0 == 0.0 {
            Self {
                hi: libm::floor(self.hi),
                lo: self.lo,
            }
        } else if libm::modf(self.hi).0 == 0.0 {
            fast_two_sum(self.hi, libm::floor(self.lo))
        } else {
            libm::floor(self.hi).into()
        }
    }

    /// Returns the nearest integer to the value. Round half-way cases away
    /// from `0.0`.
    ///
    /// # Examples
    ///
    /// ```
    /// # use twofloat::TwoFloat;
    /// let a = TwoFloat::new_add(1.0, 1e-200).round();
    /// let b = TwoFloat::new_add(1.0, -1e-200).round();
    /// let c = TwoFloat::from(-0.5).round();
    ///
    /// assert_eq!(a, TwoFloat::from(1.0));
    /// assert_eq!(b, TwoFloat::from(1.0));
    /// assert_eq!(c, TwoFloat::from(-1.0));
    /// ```
    pub fn round(self) -> Self {
        if libm::modf(self.lo).0 == 0.0 {
            Self {
                hi: libm::round(self.hi),
                lo: self.lo(),
            }
        } else if libm::modf(self.hi).0 == 0.0 {
            if libm::fabs(libm::modf(self.lo).0) == 0.5 {
                if self.is_sign_positive() {
                    fast_two_sum(self.hi, libm::ceil(self.lo))
                } else {
                    fast_two_sum(self.hi, libm::floor(self.lo))
                }
            } else {
                fast_two_sum(self.hi, libm::round(self.lo))
            }
        } else if libm::fabs(libm::modf(self.hi).0) == 0.5 {
            if self.hi.is_sign_positive() == self.lo.is_sign_positive() {
                libm::round(self.hi).into()
            } else {
                libm::trunc(self.hi).into()
            }
        } else {
            libm::round(self.hi).into()
        }
    }
}

#[cfg(test)]
mod tests {
    use crate::TwoFloat;

    const EXP2_60: f64 = 1152921504606846976.0; // 2^60

    #[test]
    fn trunc_test() {
        assert_eq!(TwoFloat::from(1.25).trunc(), 1.0);
        assert_eq!(TwoFloat::from(-1.25).trunc(), -1.0);

        assert_eq!(TwoFloat::new_add(5.0, 1e-200).trunc(), 5.0);
        assert_eq!(TwoFloat::new_add(5.0, -1e-200).trunc(), 4.0);
        assert_eq!(TwoFloat::new_add(-5.0, 1e-200).trunc(), -4.0);
        assert_eq!(TwoFloat::new_add(-5.0, -1e-200).trunc(), -5.0);

        assert_eq!(
            TwoFloat::new_add(EXP2_60, 1.5).trunc(),
            TwoFloat::new_add(EXP2_60, 1.0)
        );
        assert_eq!(
            TwoFloat::new_add(EXP2_60, -1.5).trunc(),
            TwoFloat::new_add(EXP2_60, -2.0)
        );
        assert_eq!(
            TwoFloat::new_add(-EXP2_60, 1.5).trunc(),
            TwoFloat::new_add(-EXP2_60, 2.0)
        );
        assert_eq!(
            TwoFloat::new_add(-EXP2_60, -1.5).trunc(),
            TwoFloat::new_add(-EXP2_60, -1.0)
        );
    }

    #[test]
    fn ceil_test() {
        assert_eq!(1.0, TwoFloat::from(0.25).ceil());
        assert_eq!(0.0, TwoFloat::from(-0.25).ceil());

        assert_eq!(TwoFloat::new_add(5.0, 1e-200).ceil(), 6.0);
        assert_eq!(TwoFloat::new_add(5.0, -1e-200).ceil(), 5.0);
        assert_eq!(TwoFloat::new_add(-5.0, 1e-200).ceil(), -4.0);
        assert_eq!(TwoFloat::new_add(-5.0, -1e-200).ceil(), -5.0);

        assert_eq!(
            TwoFloat::new_add(EXP2_60, 1.5).ceil(),
            TwoFloat::new_add(EXP2_60, 2.0)
        );
        assert_eq!(
            TwoFloat::new_add(EXP2_60, -1.5).ceil(),
            TwoFloat::new_add(EXP2_60, -1.0)
        );
        assert_eq!(
            TwoFloat::new_add(-EXP2_60, 1.5).ceil(),
            TwoFloat::new_add(-EXP2_60, 2.0)
        );
        assert_eq!(
            TwoFloat::new_add(-EXP2_60, -1.5).ceil(),
            TwoFloat::new_add(-EXP2_60, -1.0)
        );
    }

    #[test]
    fn floor_test() {
        assert_eq!(0.0, TwoFloat::from(0.25).floor());
        assert_eq!(-1.0, TwoFloat::from(-0.25).floor());

        assert_eq!(TwoFloat::new_add(5.0, 1e-200).floor(), 5.0);
        assert_eq!(TwoFloat::new_add(5.0, -1e-200).floor(), 4.0);
        assert_eq!(TwoFloat::new_add(-5.0, 1e-200).floor(), -5.0);
        assert_eq!(TwoFloat::new_add(-5.0, -1e-200).floor(), -6.0);

        assert_eq!(
            TwoFloat::new_add(EXP2_60, 1.5).floor(),
            TwoFloat::new_add(EXP2_60, 1.0)
        );
        assert_eq!(
            TwoFloat::new_add(EXP2_60, -1.5).floor(),
            TwoFloat::new_add(EXP2_60, -2.0)
        );
        assert_eq!(
            TwoFloat::new_add(-EXP2_60, 1.5).floor(),
            TwoFloat::new_add(-EXP2_60, 1.0)
        );
        assert_eq!(
            TwoFloat::new_add(-EXP2_60, -1.5).floor(),
            TwoFloat::new_add(-EXP2_60, -2.0)
        );
    }

    #[test]
    fn round_test() {
        assert_eq!(1.0, TwoFloat::from(0.5).round());
        assert_eq!(2.0, TwoFloat::from(1.5).round());
        assert_eq!(-1.0, TwoFloat::from(-0.5).round());
        assert_eq!(-2.0, TwoFloat::from(-1.5).round());

        assert_eq!(1.0, TwoFloat::from(0.9).round());
        assert_eq!(1.0, TwoFloat::from(1.1).round());
        assert_eq!(-1.0, TwoFloat::from(-0.9).round());
        assert_eq!(-1.0, TwoFloat::from(-1.1).round());

        assert_eq!(TwoFloat::new_add(5.0, 1e-200).round(), 5.0);
        assert_eq!(TwoFloat::new_add(5.0, -1e-200).round(), 5.0);
        assert_eq!(TwoFloat::new_add(-5.0, 1e-200).round(), -5.0);
        assert_eq!(TwoFloat::new_add(-5.0, -1e-200).round(), -5.0);

        assert_eq!(TwoFloat::new_add(1.5, 1e-200).round(), 2.0);
        assert_eq!(TwoFloat::new_add(1.5, -1e-200).round(), 1.0);
        assert_eq!(TwoFloat::new_add(-1.5, 1e-200).round(), -1.0);
        assert_eq!(TwoFloat::new_add(-1.5, -1e-200).round(), -2.0);

        assert_eq!(
            TwoFloat::new_add(EXP2_60, 0.9).round(),
            TwoFloat::new_add(EXP2_60, 1.0)
        );
        assert_eq!(
            TwoFloat::new_add(EXP2_60, 1.1).round(),
            TwoFloat::new_add(EXP2_60, 1.0)
        );
        assert_eq!(
            TwoFloat::new_add(EXP2_60, -0.9).round(),
            TwoFloat::new_add(EXP2_60, -1.0)
        );
        assert_eq!(
            TwoFloat::new_add(EXP2_60, -1.1).round(),
            TwoFloat::new_add(EXP2_60, -1.0)
        );
        assert_eq!(
            TwoFloat::new_add(-EXP2_60, 0.9).round(),
            TwoFloat::new_add(-EXP2_60, 1.0)
        );
        assert_eq!(
            TwoFloat::new_add(-EXP2_60, 1.1).round(),
            TwoFloat::new_add(-EXP2_60, 1.0)
        );
        assert_eq!(
            TwoFloat::new_add(-EXP2_60, -0.9).round(),
            TwoFloat::new_add(-EXP2_60, -1.0)
        );
        assert_eq!(
            TwoFloat::new_add(-EXP2_60, -1.1).round(),
            TwoFloat::new_add(-EXP2_60, -1.0)
        );

        assert_eq!(
            TwoFloat::new_add(EXP2_60, 1.5).round(),
            TwoFloat::new_add(EXP2_60, 2.0)
        );
        assert_eq!(
            TwoFloat::new_add(EXP2_60, -1.5).round(),
            TwoFloat::new_add(EXP2_60, -1.0)
        );
        assert_eq!(
            TwoFloat::new_add(-EXP2_60, 1.5).round(),
            TwoFloat::new_add(-EXP2_60, 1.0)
        );
        assert_eq!(
            TwoFloat::new_add(-EXP2_60, -1.5).round(),
            TwoFloat::new_add(-EXP2_60, -2.0)
        );
    }
}
