use crate::TwoFloat;

impl TwoFloat {
    /// Returns the square root of the number, using equation 4 from Karp &
    /// Markstein (1997).
    ///
    /// # Examples
    ///
    /// ```
    /// # use twofloat::TwoFloat;
    /// let a = TwoFloat::from(2.0);
    /// let b = a.sqrt();
    ///
    /// assert!(b * b - a < 1e-16);
    /// ```
    pub fn sqrt(self) -> Self {
        if self.hi < 0.0 || (self.hi == 0.0 && self.lo < 0.0) {
            Self::NAN
        } else if self.hi == 0.0 && self.lo == 0.0 {
            Self { hi: 0.0, lo: 0.0 }
        } else {
            let x = libm::sqrt(self.hi).recip();
            let y = self.hi * x;
            Self::new_add(y, (self - Self::new_mul(y, y)).hi * (x * 0.5))
        }
    }

    /// Returns the cube root of the number, using Newton-Raphson iteration.
    ///
    /// # Examples
    ///
    /// ```
    /// # use twofloat::TwoFloat;
    /// let a = TwoFloat::new_add(1.4e53, 0.21515);
    /// let b = a.cbrt();
    ///
    /// assert!(b.powi(3) - a < 1e-16);
    /// ```
    pub fn cbrt(self) -> Self {
        if self.hi == 0.0 && self.lo == 0.0 {
            return Self { hi: 0.0, lo: 0.0 };
        }
        let mut x = Self::from(libm::cbrt(self.hi));
        let mut x2 = x * x;
        x -= (x2 * x - self) / (3.0 * x2);
        x2 = x * x;
        x - (x2 * x - self) / (3.0 * x2)
    }

    /// Calculates the length of the hypotenuse of a right-angle triangle
    /// given legs of length `self` and `other`.
    ///
    /// # Examples
    ///
    /// ```
    /// # use twofloat::TwoFloat;
    /// let a = TwoFloat::from(3.0);
    /// let b = TwoFloat::from(4.0);
    /// let c = TwoFloat::hypot(a, b);
    ///
    /// assert!((c - 5.0).abs() < 1e-10);
    /// ```
    pub fn hypot(self, other: Self) -> Self {
        (self * self + other * other).sqrt()
    }

    /// Returns the value raised to the power `y`.
    ///
    /// This method is quite inaccurate, where possible `powi`, `sqrt` or
    /// `cbrt` should be preferred.
    ///
    /// # Examples
    ///
    /// ```
    /// # use twofloat::TwoFloat;
    /// let a = TwoFloat::from(-5.0);
    /// let b = TwoFloat::from(3.0);
    /// let c = a.powf(b);
    ///
    /// assert!((c + 125.0).abs() < 1e-9, "{}", c);
    /// ```
    pub fn powf(self, y: Self) -> Self {
        match (self == 0.0, y == 0.0) {
            (true, true) => Self::NAN,
            (true, false) => Self::from(0.0),
            (false, true) => Self::from(1.0),
            (false, false) => {
                if self.is_sign_positive() {
                    (y * self.ln()).exp()
                } else if libm::modf(y.hi).0 != 0.0 || libm::modf(y.lo).0 != 0.0 {
                    Self::NAN
                } else {
                    let abs_result = (y * self.abs().ln()).exp();
                    let low_trunc = if libm::trunc(y.lo) == 0.0 {
                        libm::trunc(y.hi)
                    } else {
                        libm::trunc(y.lo)
                    };

                    if low_trunc % 2.0 == 0.0 {
                        abs_result
                    } else {
                        -abs_result
                    }
                }
            }
        }
    }
}
