use hexf::hexf64;

use crate::{consts::LN_2, TwoFloat};

// 1/ln(2)
const FRAC_1_LN_2: TwoFloat = TwoFloat {
    hi: hexf64!("0x1.71547652b82fep0"),
    lo: hexf64!("0x1.777d0ffda0d24p-56"),
};

// ln(10)
const LN_10: TwoFloat = TwoFloat {
    hi: hexf64!("0x1.26bb1bbb55516p1"),
    lo: hexf64!("-0x1.f48ad494ea3e9p-53"),
};

// ln(3/2)
const LN_FRAC_3_2: TwoFloat = TwoFloat {
    hi: hexf64!("0x1.9f323ecbf984cp-2"),
    lo: hexf64!("-0x1.a92e513217f5cp-59"),
};

// limits
const EXP_UPPER_LIMIT: f64 = 709.0;
const EXP_LOWER_LIMIT: f64 = -709.0;

const FRAC_FACT: [TwoFloat; 21] = [
    TwoFloat {
        // 1/0!
        hi: hexf64!("0x1.0000000000000p+0"),
        lo: hexf64!("0x0.0p+0"),
    },
    TwoFloat {
        // 1/1!
        hi: hexf64!("0x1.0000000000000p+0"),
        lo: hexf64!("0x0.0p+0"),
    },
    TwoFloat {
        // 1/2!
        hi: hexf64!("0x1.0000000000000p-1"),
        lo: hexf64!("0x0.0p+0"),
    },
    TwoFloat {
        // 1/3!
        hi: hexf64!("0x1.5555555555555p-3"),
        lo: hexf64!("0x1.5555555555555p-57"),
    },
    TwoFloat {
        // 1/4!
        hi: hexf64!("0x1.5555555555555p-5"),
        lo: hexf64!("0x1.5555555555555p-59"),
    },
    TwoFloat {
        // 1/5!
        hi: hexf64!("0x1.1111111111111p-7"),
        lo: hexf64!("0x1.1111111111111p-63"),
    },
    TwoFloat {
        // 1/6!
        hi: hexf64!("0x1.6c16c16c16c17p-10"),
        lo: hexf64!("-0x1.f49f49f49f49fp-65"),
    },
    TwoFloat {
        // 1/7!
        hi: hexf64!("0x1.a01a01a01a01ap-13"),
        lo: hexf64!("0x1.a01a01a01a01ap-73"),
    },
    TwoFloat {
        // 1/8!
        hi: hexf64!("0x1.a01a01a01a01ap-16"),
        lo: hexf64!("0x1.a01a01a01a01ap-76"),
    },
    TwoFloat {
        // 1/9!
        hi: hexf64!("0x1.71de3a556c734p-19"),
        lo: hexf64!("-0x1.c154f8ddc6c00p-73"),
    },
    TwoFloat {
        // 1/10!
        hi: hexf64!("0x1.27e4fb7789f5cp-22"),
        lo: hexf64!("0x1.cbbc05b4fa99ap-76"),
    },
    TwoFloat {
        // 1/11!
        hi: hexf64!("0x1.ae64567f544e4p-26"),
        lo: hexf64!("-0x1.c062e06d1f209p-80"),
    },
    TwoFloat {
        // 1/12!
        hi: hexf64!("0x1.1eed8eff8d898p-29"),
        lo: hexf64!("-0x1.2aec959e14c06p-83"),
    },
    TwoFloat {
        // 1/13!
        hi: hexf64!("0x1.6124613a86d09p-33"),
        lo: hexf64!("0x1.f28e0cc748ebep-87"),
    },
    TwoFloat {
        // 1/14!
        hi: hexf64!("0x1.93974a8c07c9dp-37"),
        lo: hexf64!("0x1.05d6f8a2efd1fp-92"),
    },
    TwoFloat {
        // 1/15!
        hi: hexf64!("0x1.ae7f3e733b81fp-41"),
        lo: hexf64!("0x1.1d8656b0ee8cbp-97"),
    },
    TwoFloat {
        // 1/16!
        hi: hexf64!("0x1.ae7f3e733b81fp-45"),
        lo: hexf64!("0x1.1d8656b0ee8cbp-101"),
    },
    TwoFloat {
        // 1/17!
        hi: hexf64!("0x1.952c77030ad4ap-49"),
        lo: hexf64!("0x1.ac981465ddc6cp-103"),
    },
    TwoFloat {
        // 1/18!
        hi: hexf64!("0x1.6827863b97d97p-53"),
        lo: hexf64!("0x1.eec01221a8b0bp-107"),
    },
    TwoFloat {
        // 1/19!
        hi: hexf64!("0x1.2f49b46814157p-57"),
        lo: hexf64!("0x1.2650f61dbdcb4p-112"),
    },
    TwoFloat {
        // 1/20!
        hi: hexf64!("0x1.e542ba4020225p-62"),
        lo: hexf64!("0x1.ea72b4afe3c2fp-120"),
    },
];

fn mul_pow2(mut x: f64, mut y: i32) -> f64 {
    loop {
        if y < -1074 {
            x *= hexf64!("0x1.0p-1074");
            y += 1074;
        } else if y < -1022 {
            return x * f64::from_bits(1u64 << (y + 1074));
        } else if y < 1024 {
            return x * f64::from_bits(((y + 1023) as u64) << 52);
        } else {
            x *= hexf64!("0x1.0p1023");
            y -= 1023;
        }
    }
}

/// Exact results for the expression `exp(n/128) - 1` for `|n| <= 32`
fn expm1_128th(n: i32) -> TwoFloat {
    assert!(n.abs() <= 32);
    #[cfg(feature = "verif_hooks")]
    crate::verif_hooks::touch(crate::verif_hooks::SITE_EXPM1_128TH, (n + 32) as usize);

    const EXPM1_128TH: [TwoFloat; 65] = [
        TwoFloat {
            // exp(-32/128) - 1
            hi: hexf64!("-0x1.c5041854df7d4p-3"),
            lo: hexf64!("-0x1.797d4686c5393p-57"),
        },
        TwoFloat {
            // exp(-31/128) - 1
            hi: hexf64!("-0x1.b881a23aebb4ap-3"),
            lo: hexf64!("0x1.5e3462e9ccc6ep-59"),
        },
        TwoFloat {
            // exp(-30/128) - 1
            hi: hexf64!("-0x1.abe60e1f21836p-3"),
            lo: hexf64!("-0x1.6f8b82e653e2dp-60"),
        },
        TwoFloat {
            // exp(-29/128) - 1
            hi: hexf64!("-0x1.9f3129931faafp-3"),
            lo: hexf64!("-0x1.00136f85b612cp-59"),
        },
        TwoFloat {
            // exp(-28/128) - 1
            hi: hexf64!("-0x1.9262c1c3430a1p-3"),
            lo: hexf64!("-0x1.46ff6ec4a4251p-57"),
        },
        TwoFloat {
            // exp(-27/128) - 1
            hi: hexf64!("-0x1.857aa375db4e2p-3"),
            lo: hexf64!("-0x1.960d6ed0eefd4p-58"),
        },
        TwoFloat {
            // exp(-26/128) - 1
            hi: hexf64!("-0x1.78789b0a5e0c0p-3"),
            lo: hexf64!("0x1.e3a6bdaece8f9p-58"),
        },
        TwoFloat {
            // exp(-25/128) - 1
            hi: hexf64!("-0x1.6b5c7478983dap-3"),
            lo: hexf64!("0x1.286a8f9e96160p-58"),
        },
        TwoFloat {
            // exp(-24/128) - 1
            hi: hexf64!("-0x1.5e25fb4fde211p-3"),
            lo: hexf64!("0x1.64eec82915df3p-63"),
        },
        TwoFloat {
            // exp(-23/128) - 1
            hi: hexf64!("-0x1.50d4fab639757p-3"),
            lo: hexf64!("-0x1.3bc197e5f2a7ep-59"),
        },
        TwoFloat {
            // exp(-22/128) - 1
            hi: hexf64!("-0x1.43693d679612dp-3"),
            lo: hexf64!("-0x1.9da94a869862ap-57"),
        },
        TwoFloat {
            // exp(-21/128) - 1
            hi: hexf64!("-0x1.35e28db4ecd9bp-3"),
            lo: hexf64!("-0x1.a2252f7d4b5f6p-58"),
        },
        TwoFloat {
            // exp(-20/128) - 1
            hi: hexf64!("-0x1.2840b5836cf67p-3"),
            lo: hexf64!("-0x1.85405051eb425p-57"),
        },
        TwoFloat {
            // exp(-19/128) - 1
            hi: hexf64!("-0x1.1a837e4ba3760p-3"),
            lo: hexf64!("0x1.a94ad2c8fa0bfp-58"),
        },
        TwoFloat {
            // exp(-18/128) - 1
            hi: hexf64!("-0x1.0caab118a1278p-3"),
            lo: hexf64!("0x1.6ad4c353465b0p-61"),
        },
        TwoFloat {
            // exp(-17/128) - 1
            hi: hexf64!("-0x1.fd6c2d0e3d912p-4"),
            lo: hexf64!("0x1.d117a3c69926cp-58"),
        },
        TwoFloat {
            // exp(-16/128) - 1
            hi: hexf64!("-0x1.e14aed893eef4p-4"),
            lo: hexf64!("0x1.e1f58934f97afp-59"),
        },
        TwoFloat {
            // exp(-15/128) - 1
            hi: hexf64!("-0x1.c4f1331d22d3cp-4"),
            lo: hexf64!("-0x1.ece0aa18a07e5p-63"),
        },
        TwoFloat {
            // exp(-14/128) - 1
            hi: hexf64!("-0x1.a85e8c62d9c13p-4"),
            lo: hexf64!("-0x1.adf7745e77188p-58"),
        },
        TwoFloat {
            // exp(-13/128) - 1
            hi: hexf64!("-0x1.8b92870fa2b59p-4"),
            lo: hexf64!("-0x1.ffa6c0b097a6bp-58"),
        },
        TwoFloat {
            // exp(-12/128) - 1
            hi: hexf64!("-0x1.6e8caff341feap-4"),
            lo: hexf64!("-0x1.9573ded7888b2p-58"),
        },
        TwoFloat {
            // exp(-11/128) - 1
            hi: hexf64!("-0x1.514c92f634786p-4"),
            lo: hexf64!("-0x1.64c069cd0a314p-58"),
        },
        TwoFloat {
            // exp(-10/128) - 1
            hi: hexf64!("-0x1.33d1bb17df2e7p-4"),
            lo: hexf64!("-0x1.e19c873b1d6a8p-59"),
        },
        TwoFloat {
            // exp(-9/128) - 1
            hi: hexf64!("-0x1.161bb26cbb590p-4"),
            lo: hexf64!("-0x1.589321a7ef10bp-60"),
        },
        TwoFloat {
            // exp(-8/128) - 1
            hi: hexf64!("-0x1.f0540438fd5c3p-5"),
            lo: hexf64!("-0x1.a1ce01f9f6ca7p-61"),
        },
        TwoFloat {
            // exp(-7/128) - 1
            hi: hexf64!("-0x1.b3f864c07fffbp-5"),
            lo: hexf64!("0x1.cfbc1f5774ea7p-61"),
        },
        TwoFloat {
            // exp(-6/128) - 1
            hi: hexf64!("-0x1.7723950130405p-5"),
            lo: hexf64!("0x1.c677ad8fa478dp-61"),
        },
        TwoFloat {
            // exp(-5/128) - 1
            hi: hexf64!("-0x1.39d4a1a77e051p-5"),
            lo: hexf64!("0x1.ee8939ec858d8p-59"),
        },
        TwoFloat {
            // exp(-4/128) - 1
            hi: hexf64!("-0x1.f8152aee9450ep-6"),
            lo: hexf64!("0x1.4b00abf977627p-61"),
        },
        TwoFloat {
            // exp(-3/128) - 1
            hi: hexf64!("-0x1.7b88f290230dep-6"),
            lo: hexf64!("0x1.e93d61cf69296p-60"),
        },
        TwoFloat {
            // exp(-2/128) - 1
            hi: hexf64!("-0x1.fc055004416dbp-7"),
            lo: hexf64!("-0x1.82ef422ab152ap-61"),
        },
        TwoFloat {
            // exp(-1/128) - 1
            hi: hexf64!("-0x1.fe0154aaeed83p-8"),
            lo: hexf64!("-0x1.00681d99aceefp-62"),
        },
        TwoFloat {
            // exp(0/128) - 1
            hi: hexf64!("0x0.0p+0"),
            lo: hexf64!("0x0.0p+0"),
        },
        TwoFloat {
            // exp(1/128) - 1
            hi: hexf64!("0x1.0100ab00222d8p-7"),
            lo: hexf64!("0x1.864c70578e6d1p-61"),
        },
        TwoFloat {
            // exp(2/128) - 1
            hi: hexf64!("0x1.0202ad5778e46p-6"),
            lo: hexf64!("-0x1.51e6d305beec6p-62"),
        },
        TwoFloat {
            // exp(3/128) - 1
            hi: hexf64!("0x1.84890d9043745p-6"),
            lo: hexf64!("0x1.cacb3aebd2b6fp-61"),
        },
        TwoFloat {
            // exp(4/128) - 1
            hi: hexf64!("0x1.040ac0224fd93p-5"),
            lo: hexf64!("0x1.c17a107575019p-61"),
        },
        TwoFloat {
            // exp(5/128) - 1
            hi: hexf64!("0x1.465509d383eb0p-5"),
            lo: hexf64!("0x1.45cc1cf959b1bp-60"),
        },
        TwoFloat {
            // exp(6/128) - 1
            hi: hexf64!("0x1.89246d053d178p-5"),
            lo: hexf64!("0x1.4967f31eb2595p-59"),
        },
        TwoFloat {
            // exp(7/128) - 1
            hi: hexf64!("0x1.cc79f4f5613a3p-5"),
            lo: hexf64!("-0x1.9b7d9052797c8p-61"),
        },
        TwoFloat {
            // exp(8/128) - 1
            hi: hexf64!("0x1.082b577d34ed8p-4"),
            lo: hexf64!("-0x1.5272ff30eed1bp-59"),
        },
        TwoFloat {
            // exp(9/128) - 1
            hi: hexf64!("0x1.2a5dd543ccc4ep-4"),
            lo: hexf64!("-0x1.280f19dace1bep-59"),
        },
        TwoFloat {
            // exp(10/128) - 1
            hi: hexf64!("0x1.4cd4fc989cd64p-4"),
            lo: hexf64!("0x1.557a8671b89e7p-58"),
        },
        TwoFloat {
            // exp(11/128) - 1
            hi: hexf64!("0x1.6f91575870693p-4"),
            lo: hexf64!("-0x1.b71235569f4d4p-61"),
        },
        TwoFloat {
            // exp(12/128) - 1
            hi: hexf64!("0x1.92937074e0cd7p-4"),
            lo: hexf64!("-0x1.db0b9cc915fc5p-58"),
        },
        TwoFloat {
            // exp(13/128) - 1
            hi: hexf64!("0x1.b5dbd3f681223p-4"),
            lo: hexf64!("0x1.f5c92a5200eeep-63"),
        },
        TwoFloat {
            // exp(14/128) - 1
            hi: hexf64!("0x1.d96b0eff0e794p-4"),
            lo: hexf64!("-0x1.75385b2cdf93dp-59"),
        },
        TwoFloat {
            // exp(15/128) - 1
            hi: hexf64!("0x1.fd41afcba45e7p-4"),
            lo: hexf64!("-0x1.2db6f4bbe33b4p-60"),
        },
        TwoFloat {
            // exp(16/128) - 1
            hi: hexf64!("0x1.10b022db7ae68p-3"),
            lo: hexf64!("-0x1.8c4a5df1ec7e5p-58"),
        },
        TwoFloat {
            // exp(17/128) - 1
            hi: hexf64!("0x1.22e3b09dc54d8p-3"),
            lo: hexf64!("-0x1.bd4b1c37ea8a2p-57"),
        },
        TwoFloat {
            // exp(18/128) - 1
            hi: hexf64!("0x1.353bc9fb00b21p-3"),
            lo: hexf64!("0x1.6bae618011342p-57"),
        },
        TwoFloat {
            // exp(19/128) - 1
            hi: hexf64!("0x1.47b8b853aafecp-3"),
            lo: hexf64!("-0x1.4c26602c63fdap-57"),
        },
        TwoFloat {
            // exp(20/128) - 1
            hi: hexf64!("0x1.5a5ac59b963cbp-3"),
            lo: hexf64!("-0x1.fd91307e74c50p-57"),
        },
        TwoFloat {
            // exp(21/128) - 1
            hi: hexf64!("0x1.6d223c5b1063ap-3"),
            lo: hexf64!("-0x1.4aae273c07a5ep-60"),
        },
        TwoFloat {
            // exp(22/128) - 1
            hi: hexf64!("0x1.800f67b00d7b8p-3"),
            lo: hexf64!("0x1.7ab912c69ffebp-61"),
        },
        TwoFloat {
            // exp(23/128) - 1
            hi: hexf64!("0x1.9322934f54148p-3"),
            lo: hexf64!("-0x1.b3564bc0ec9cdp-58"),
        },
        TwoFloat {
            // exp(24/128) - 1
            hi: hexf64!("0x1.a65c0b85ac1a9p-3"),
            lo: hexf64!("0x1.a9c189196f8cdp-57"),
        },
        TwoFloat {
            // exp(25/128) - 1
            hi: hexf64!("0x1.b9bc1d3910092p-3"),
            lo: hexf64!("0x1.ea39cb4039031p-57"),
        },
        TwoFloat {
            // exp(26/128) - 1
            hi: hexf64!("0x1.cd4315e9e0833p-3"),
            lo: hexf64!("-0x1.172c31a1781f1p-61"),
        },
        TwoFloat {
            // exp(27/128) - 1
            hi: hexf64!("0x1.e0f143b41a554p-3"),
            lo: hexf64!("-0x1.6e7fb859d5055p-62"),
        },
        TwoFloat {
            // exp(28/128) - 1
            hi: hexf64!("0x1.f4c6f5508ee5dp-3"),
            lo: hexf64!("0x1.46ef7b808180ap-57"),
        },
        TwoFloat {
            // exp(29/128) - 1
            hi: hexf64!("0x1.04623d0b0f8c8p-2"),
            lo: hexf64!("0x1.e17611afc42c5p-57"),
        },
        TwoFloat {
            // exp(30/128) - 1
            hi: hexf64!("0x1.0e7510fd7c564p-2"),
            lo: hexf64!("-0x1.1c5b2e8735a43p-56"),
        },
        TwoFloat {
            // exp(31/128) - 1
            hi: hexf64!("0x1.189c1ecaeb083p-2"),
            lo: hexf64!("0x1.b403d8c766006p-56"),
        },
        TwoFloat {
            // exp(32/128) - 1
            hi: hexf64!("0x1.22d78f0fa061ap-2"),
            lo: hexf64!("-0x1.89843c4964554p-56"),
        },
    ];

    EXPM1_128TH[(n + 32) as usize]
}

/// Compute exp(1/2)^n with n = 32*a + b
///
/// exp(1/2)^n = exp(32/2)^a * exp(1/2)^b
///
/// In order to have the exact result we can store the coefficeints
/// for different values of `a` and `b`
///
/// with :
///  - `|a| < 45`
///  - `|b| < 32`
///
/// We obtain valid expression for `|n| < 32 * 45 = 1440`
fn exp_half(n: i32) -> TwoFloat {
    assert!(n < 1440, "exp_half max exponent is 1439: {}", n);

    const EXP_HALF_N: [TwoFloat; 31] = [
        TwoFloat {
            // exp(1/2)^1
            hi: hexf64!("0x1.a61298e1e069cp+0"),
            lo: hexf64!("-0x1.b4690082a4906p-55"),
        },
        TwoFloat {
            // exp(1/2)^2
            hi: hexf64!("0x1.5bf0a8b145769p+1"),
            lo: hexf64!("0x1.4d57ee2b1013ap-53"),
        },
        TwoFloat {
            // exp(1/2)^3
            hi: hexf64!("0x1.1ed3fe64fc541p+2"),
            lo: hexf64!("0x1.5f6e4658d43eap-52"),
        },
        TwoFloat {
            // exp(1/2)^4
            hi: hexf64!("0x1.d8e64b8d4ddaep+2"),
            lo: hexf64!("-0x1.9e62e22efca4cp-53"),
        },
        TwoFloat {
            // exp(1/2)^5
            hi: hexf64!("0x1.85d6fd931e0bbp+3"),
            lo: hexf64!("0x1.d4dec34de84a0p-53"),
        },
        TwoFloat {
            // exp(1/2)^6
            hi: hexf64!("0x1.415e5bf6fb106p+4"),
            lo: hexf64!("-0x1.a568407591768p-53"),
        },
        TwoFloat {
            // exp(1/2)^7
            hi: hexf64!("0x1.08ec721396bdbp+5"),
            lo: hexf64!("0x1.4354c26b2875ep-49"),
        },
        TwoFloat {
            // exp(1/2)^8
            hi: hexf64!("0x1.b4c902e273a58p+5"),
            lo: hexf64!("0x1.9e35b4eff6e4fp-49"),
        },
        TwoFloat {
            // exp(1/2)^9
            hi: hexf64!("0x1.68118ade1deaap+6"),
            lo: hexf64!("0x1.6f9d8bafaba87p-49"),
        },
        TwoFloat {
            // exp(1/2)^10
            hi: hexf64!("0x1.28d389970338fp+7"),
            lo: hexf64!("0x1.f66faad9235acp-49"),
        },
        TwoFloat {
            // exp(1/2)^11
            hi: hexf64!("0x1.e96244f21bbf6p+7"),
            lo: hexf64!("0x1.298c834010b39p-48"),
        },
        TwoFloat {
            // exp(1/2)^12
            hi: hexf64!("0x1.936dc5690c08fp+8"),
            lo: hexf64!("0x1.bd4d728fcb999p-47"),
        },
        TwoFloat {
            // exp(1/2)^13
            hi: hexf64!("0x1.4c92210816c89p+9"),
            lo: hexf64!("0x1.0d5b86bb2485cp-45"),
        },
        TwoFloat {
            // exp(1/2)^14
            hi: hexf64!("0x1.122885aaeddaap+10"),
            lo: hexf64!("0x1.bc7e802a24decp-44"),
        },
        TwoFloat {
            // exp(1/2)^15
            hi: hexf64!("0x1.c402b6eb1f6adp+10"),
            lo: hexf64!("0x1.49c5fd40401f0p-45"),
        },
        TwoFloat {
            // exp(1/2)^16
            hi: hexf64!("0x1.749ea7d470c6ep+11"),
            lo: hexf64!("-0x1.e83fe3ef6afd4p-46"),
        },
        TwoFloat {
            // exp(1/2)^17
            hi: hexf64!("0x1.332c4d2b7c4a1p+12"),
            lo: hexf64!("0x1.877bfc89a825ep-46"),
        },
        TwoFloat {
            // exp(1/2)^18
            hi: hexf64!("0x1.fa7157c470f82p+12"),
            lo: hexf64!("-0x1.e4d50f21f5ac5p-43"),
        },
        TwoFloat {
            // exp(1/2)^19
            hi: hexf64!("0x1.a17dd08c11dc1p+13"),
            lo: hexf64!("-0x1.de54a23f86061p-41"),
        },
        TwoFloat {
            // exp(1/2)^20
            hi: hexf64!("0x1.5829dcf950560p+14"),
            lo: hexf64!("-0x1.83e055cfea4bbp-40"),
        },
        TwoFloat {
            // exp(1/2)^21
            hi: hexf64!("0x1.1bb7015e84d3bp+15"),
            lo: hexf64!("0x1.bc1c4193bcdb9p-40"),
        },
        TwoFloat {
            // exp(1/2)^22
            hi: hexf64!("0x1.d3c4488ee4f7fp+15"),
            lo: hexf64!("0x1.f7b8937dac77dp-40"),
        },
        TwoFloat {
            // exp(1/2)^23
            hi: hexf64!("0x1.819bc560f6113p+16"),
            lo: hexf64!("0x1.ab5fcbf2b9216p-39"),
        },
        TwoFloat {
            // exp(1/2)^24
            hi: hexf64!("0x1.3de1654d37c9ap+17"),
            lo: hexf64!("0x1.75002e232b908p-38"),
        },
        TwoFloat {
            // exp(1/2)^25
            hi: hexf64!("0x1.060c52565ba66p+18"),
            lo: hexf64!("-0x1.607621f784efep-36"),
        },
        TwoFloat {
            // exp(1/2)^26
            hi: hexf64!("0x1.b00b5916ac955p+18"),
            lo: hexf64!("0x1.aa63a6c655d68p-37"),
        },
        TwoFloat {
            // exp(1/2)^27
            hi: hexf64!("0x1.64290bd5cad8bp+19"),
            lo: hexf64!("0x1.c4da08cc70404p-35"),
        },
        TwoFloat {
            // exp(1/2)^28
            hi: hexf64!("0x1.259ac48bf05d7p+20"),
            lo: hexf64!("-0x1.07e45cbbee1cfp-36"),
        },
        TwoFloat {
            // exp(1/2)^29
            hi: hexf64!("0x1.e4127437732b7p+20"),
            lo: hexf64!("0x1.f4a21b9a4afd1p-36"),
        },
        TwoFloat {
            // exp(1/2)^30
            hi: hexf64!("0x1.8f0ccafad2a87p+21"),
            lo: hexf64!("-0x1.0e8d00e46995ap-35"),
        },
        TwoFloat {
            // exp(1/2)^31
            hi: hexf64!("0x1.48f609e7b6bbep+22"),
            lo: hexf64!("0x1.c297debcbca60p-32"),
        },
    ];
    const EXP_16_N: [TwoFloat; 44] = [
        TwoFloat {
            // exp(16)^1
            hi: hexf64!("0x1.0f2ebd0a80020p+23"),
            lo: hexf64!("0x1.2488fc5c220adp-31"),
        },
        TwoFloat {
            // exp(16)^2
            hi: hexf64!("0x1.1f43fcc4b662cp+46"),
            lo: hexf64!("0x1.f611e21006108p-8"),
        },
        TwoFloat {
            // exp(16)^3
            hi: hexf64!("0x1.304d6aeca254bp+69"),
            lo: hexf64!("0x1.d7a5e2eb149ebp+14"),
        },
        TwoFloat {
            // exp(16)^4
            hi: hexf64!("0x1.425982cf597cdp+92"),
            lo: hexf64!("0x1.02e71eada76d8p+37"),
        },
        TwoFloat {
            // exp(16)^5
            hi: hexf64!("0x1.55779b984f3ebp+115"),
            lo: hexf64!("0x1.e45281da54712p+60"),
        },
        TwoFloat {
            // exp(16)^6
            hi: hexf64!("0x1.69b7f55b808bap+138"),
            lo: hexf64!("0x1.6f21a89b844aep+83"),
        },
        TwoFloat {
            // exp(16)^7
            hi: hexf64!("0x1.7f2bc6e599b7ep+161"),
            lo: hexf64!("0x1.46d9358056eb4p+106"),
        },
        TwoFloat {
            // exp(16)^8
            hi: hexf64!("0x1.95e54c5dd4217p+184"),
            lo: hexf64!("0x1.fd4fd3548677cp+130"),
        },
        TwoFloat {
            // exp(16)^9
            hi: hexf64!("0x1.adf7d6c5fbb7ap+207"),
            lo: hexf64!("0x1.9ffe2ce2ba6cdp+153"),
        },
        TwoFloat {
            // exp(16)^10
            hi: hexf64!("0x1.c777dc65c9488p+230"),
            lo: hexf64!("0x1.d3ccd78123ba5p+174"),
        },
        TwoFloat {
            // exp(16)^11
            hi: hexf64!("0x1.e27b0a2f86833p+253"),
            lo: hexf64!("0x1.a7b6e2b8658a4p+198"),
        },
        TwoFloat {
            // exp(16)^12
            hi: hexf64!("0x1.ff18562cc483ep+276"),
            lo: hexf64!("-0x1.233168c763a20p+221"),
        },
        TwoFloat {
            // exp(16)^13
            hi: hexf64!("0x1.0eb40981671acp+300"),
            lo: hexf64!("0x1.29640bb156506p+245"),
        },
        TwoFloat {
            // exp(16)^14
            hi: hexf64!("0x1.1ec2024fb6cefp+323"),
            lo: hexf64!("-0x1.9422d9c2347aep+269"),
        },
        TwoFloat {
            // exp(16)^15
            hi: hexf64!("0x1.2fc3bb0fcb841p+346"),
            lo: hexf64!("0x1.db4ee23db7cd6p+292"),
        },
        TwoFloat {
            // exp(16)^16
            hi: hexf64!("0x1.41c7a8814bebap+369"),
            lo: hexf64!("0x1.c646601eeefb5p+312"),
        },
        TwoFloat {
            // exp(16)^17
            hi: hexf64!("0x1.54dd1adec0b48p+392"),
            lo: hexf64!("-0x1.2bfc53615f0fep+338"),
        },
        TwoFloat {
            // exp(16)^18
            hi: hexf64!("0x1.69144ae1d9f07p+415"),
            lo: hexf64!("-0x1.67d8bf9f3dd53p+360"),
        },
        TwoFloat {
            // exp(16)^19
            hi: hexf64!("0x1.7e7e678d54eb5p+438"),
            lo: hexf64!("0x1.63ae7d736556cp+384"),
        },
        TwoFloat {
            // exp(16)^20
            hi: hexf64!("0x1.952da4c83af00p+461"),
            lo: hexf64!("-0x1.aad695063fc20p+406"),
        },
        TwoFloat {
            // exp(16)^21
            hi: hexf64!("0x1.ad354ad6e368fp+484"),
            lo: hexf64!("-0x1.45d9910503235p+430"),
        },
        TwoFloat {
            // exp(16)^22
            hi: hexf64!("0x1.c6a9c6bee04c8p+507"),
            lo: hexf64!("0x1.d3ea517425318p+453"),
        },
        TwoFloat {
            // exp(16)^23
            hi: hexf64!("0x1.e1a0bba3c3728p+530"),
            lo: hexf64!("-0x1.c8f9ccce05e3ap+476"),
        },
        TwoFloat {
            // exp(16)^24
            hi: hexf64!("0x1.fe31152b7ef6bp+553"),
            lo: hexf64!("0x1.e0a8b9fec7ecep+497"),
        },
        TwoFloat {
            // exp(16)^25
            hi: hexf64!("0x1.0e398d7d01704p+577"),
            lo: hexf64!("-0x1.1b8649000ffedp+523"),
        },
        TwoFloat {
            // exp(16)^26
            hi: hexf64!("0x1.1e4042aa53cfdp+600"),
            lo: hexf64!("-0x1.73ca574593c91p+546"),
        },
        TwoFloat {
            // exp(16)^27
            hi: hexf64!("0x1.2f3a497f7830cp+623"),
            lo: hexf64!("0x1.ece7bf7bd12b2p+568"),
        },
        TwoFloat {
            // exp(16)^28
            hi: hexf64!("0x1.413610319d4ccp+646"),
            lo: hexf64!("-0x1.250de9eb0fea2p+592"),
        },
        TwoFloat {
            // exp(16)^29
            hi: hexf64!("0x1.5442e00d851d5p+669"),
            lo: hexf64!("0x1.83b70a56057f9p+613"),
        },
        TwoFloat {
            // exp(16)^30
            hi: hexf64!("0x1.6870ea75e682dp+692"),
            lo: hexf64!("-0x1.034729ffdd0d6p+636"),
        },
        TwoFloat {
            // exp(16)^31
            hi: hexf64!("0x1.7dd156a715f16p+715"),
            lo: hexf64!("0x1.3d26f623c56bcp+661"),
        },
        TwoFloat {
            // exp(16)^32
            hi: hexf64!("0x1.9476504ba852ep+738"),
            lo: hexf64!("0x1.b0272159f0071p+684"),
        },
        TwoFloat {
            // exp(16)^33
            hi: hexf64!("0x1.ac7316ee74ed5p+761"),
            lo: hexf64!("0x1.ec158afbf5767p+707"),
        },
        TwoFloat {
            // exp(16)^34
            hi: hexf64!("0x1.c5dc0e57174a2p+784"),
            lo: hexf64!("0x1.0813267d07b90p+725"),
        },
        TwoFloat {
            // exp(16)^35
            hi: hexf64!("0x1.e0c6cfded96e2p+807"),
            lo: hexf64!("-0x1.0a3b12a7dd3dep+752"),
        },
        TwoFloat {
            // exp(16)^36
            hi: hexf64!("0x1.fd4a3cccc1d98p+830"),
            lo: hexf64!("-0x1.4f3870d0b9535p+776"),
        },
        TwoFloat {
            // exp(16)^37
            hi: hexf64!("0x1.0dbf48e430396p+854"),
            lo: hexf64!("-0x1.31e09ef47fe9fp+799"),
        },
        TwoFloat {
            // exp(16)^38
            hi: hexf64!("0x1.1dbebdb9f1388p+877"),
            lo: hexf64!("-0x1.94b9c8dfe4ecdp+823"),
        },
        TwoFloat {
            // exp(16)^39
            hi: hexf64!("0x1.2eb1161f782b7p+900"),
            lo: hexf64!("0x1.858cc679c7d16p+843"),
        },
        TwoFloat {
            // exp(16)^40
            hi: hexf64!("0x1.40a4b9c27178ap+923"),
            lo: hexf64!("-0x1.41d437e9132c2p+869"),
        },
        TwoFloat {
            // exp(16)^41
            hi: hexf64!("0x1.53a8eb04faf7cp+946"),
            lo: hexf64!("0x1.7deea8bc3420dp+891"),
        },
        TwoFloat {
            // exp(16)^42
            hi: hexf64!("0x1.67cdd3f624846p+969"),
            lo: hexf64!("-0x1.b2c19b09043f9p+913"),
        },
        TwoFloat {
            // exp(16)^43
            hi: hexf64!("0x1.7d24940f5e537p+992"),
            lo: hexf64!("0x1.99a8f3ddc5edcp+933"),
        },
        TwoFloat {
            // exp(16)^44
            hi: hexf64!("0x1.93bf4ec282efbp+1015"),
            lo: hexf64!("0x1.9052bfcd70170p+960"),
        },
    ];

    // TODO: Check that the inversion doesn't lose precision
    if n.is_negative() {
        #[cfg(feature = "verif_hooks")]
        crate::verif_hooks::touch(crate::verif_hooks::SITE_EXP_HALF_NEG, 0);
        return 1.0 / exp_half(-n);
    }

    let (a, b) = ((n / 32) as usize, (n % 32) as usize);
    #[cfg(feature = "verif_hooks")]
    {
        crate::verif_hooks::touch(crate::verif_hooks::SITE_EXP_16_N, a);
        crate::verif_hooks::touch(crate::verif_hooks::SITE_EXP_HALF_N, b);
    }

    match (a > 0, b > 0) {
        (true, true) => EXP_16_N[a - 1] * EXP_HALF_N[b - 1],
        (true, false) => EXP_16_N[a - 1],
        (false, true) => EXP_HALF_N[b - 1],
        (false, false) => 1.into(),
    }
}

impl TwoFloat {
    fn expm1_quarter(self) -> TwoFloat {
        // We need to make sure that (1 + x) does not lose possible significant
        // digits, so no matter what strategy we choose here, the convergence
        // needs to go out to x = log(1.5) = 0.22. We have it work for until a
        // quarter, because that's a nice round power of two.
        assert!(self.hi().abs() <= 0.25);

        // The idea is to use the identity
        //
        //   expm1(x) = expm1(x0) + exp(x0) * expm1(x - x0)
        //
        // to reduce the expansion order.
        let n = libm::round(128.0 * self.hi());
        let x0 = n / 128.0;
        let y = self - x0;

        let expm1_x0 = expm1_128th(libm::trunc(n) as i32);
        let exp_x0 = expm1_x0 + 1.0;
        let expm1_y = y * polynomial!(y, 1.0, FRAC_FACT[2..15]);
        //return expm1_x0.add_small(exp_x0 * exp_y);
        expm1_x0 + exp_x0 * expm1_y
    }

    /// Returns `e^(self)`, (the exponential function).
    ///
    /// Computed by rewriting `self = y/2 +z` with `y` the rounded value of self.
    /// From this we can rewrite the exponential function into `exp(sel) = exp(1/2)^y * exp(z)`.
    /// The two exponential functions can now be computed by means of lookup table
    /// and fast converging taylor series.
    ///
    /// (Shout-out to the author of  [libxprec](https://github.com/tuwien-cms/libxprec) for
    /// pointing it out )
    ///
    /// # Examples
    ///
    /// ```
    /// # use twofloat::TwoFloat;
    /// let a = TwoFloat::from(2.0);
    /// let b = a.exp();
    /// let e2 = twofloat::consts::E * twofloat::consts::E;
    ///
    /// assert!((b - e2).abs() / e2 < 1e-31);
    /// ```
    pub fn exp(self) -> Self {
        if self.hi <= EXP_LOWER_LIMIT {
            Self::from(0.0)
        } else if self.hi >= EXP_UPPER_LIMIT {
            Self {
                hi: f64::INFINITY,
                lo: 0.0,
            }
        } else if self.hi == 0.0 {
            Self::from(1.0)
        } else if self.hi.is_nan() {
            Self::NAN
        } else {
            // Compute the exponential of x = y/2 + z
            // Where y = round(2*x) giving z <= 0.25
            //
            // exp( y/2 + z ) = exp(1/2)^y * exp(z)
            //
            // exp(1/2)^y : can be computed with lookup table for integer y
            // exp(z) : can be computed using the value of exp_m1(z)
            //          with another lookup table

            // x = y/2 + z
            let y = (2.0 * self).round().hi();
            let z = self - y / 2.0;

            // exp(z + y/2) = (1 + expm1(z)) exp(1/2)^y
            let exp_z = z.expm1_quarter() + 1.0;
            let exp_y = exp_half(y as i32);
            return exp_z * exp_y;
        }
    }

    /// Returns `e^(self) - 1` in a way that provides additional accuracy
    /// when the value is close to zero.
    ///
    /// # Examples
    ///
    /// ```
    /// # use twofloat::TwoFloat;
    /// # use core::{convert::TryFrom};
    /// let a = TwoFloat::from(2f64.powi(-20));
    ///
    /// let b = a.exp_m1();
    /// let c = a.exp() - 1.0;
    ///
    /// // Exact Result
    /// // res = 9.5367477115374544678824955687428e-7;
    /// let res = TwoFloat::try_from((9.5367477115374552e-07, -7.0551613072428143e-23)).unwrap();
    ///
    /// assert!(((b-res)/res) == 0.0);
    /// assert!(((c-res)/res).abs() < 1e-29);
    /// ```
    pub fn exp_m1(self) -> Self {
        if self < -LN_2 || self > LN_FRAC_3_2 {
            self.exp() - 1.0
        } else {
            let x = self.abs();
            let r = polynomial!(x, 1.0, FRAC_FACT[2..15]);
            if self < 0.0 {
                self * r * self.exp()
            } else {
                self * r
            }
        }
    }

    /// Returns `2^(self)`.
    ///
    /// where self = k + r * n,  k > 0 and n = 2^9 = 512
    /// The taylor series for the small value of r converges very fast
    ///
    /// # Examples
    ///
    /// ```
    /// # use twofloat::TwoFloat;
    /// let a = TwoFloat::from(0.5).exp2();
    /// let b = TwoFloat::from(2).sqrt();
    /// let c = (TwoFloat::from(0.5)*twofloat::consts::LN_2).exp();
    /// let res = twofloat::consts::SQRT_2;
    ///
    /// assert!((a - res).abs() < 1e-29);
    /// assert!((b - res).abs() < 1e-31);
    /// assert!((c - res).abs() < 1e-31);
    /// ```
    pub fn exp2(self) -> Self {
        if self < -1074.0 {
            Self::from(0.0)
        } else if self >= 1023.0 {
            Self {
                hi: f64::INFINITY,
                lo: f64::INFINITY,
            }
        } else {
            let k = libm::round(self.hi);
            let r = (self - k) * LN_2 / 512.0;
            //let x = self * LN_2;
            let mut r1 = polynomial!(r, FRAC_FACT[..12]);

            // Recover rescaling of r
            r1 = r1 * r1; // 2^(r * 2)
            r1 = r1 * r1; // 2^(r * 4)
            r1 = r1 * r1; // 2^(r * 8)
            r1 = r1 * r1; // 2^(r * 16)
            r1 = r1 * r1; // 2^(r * 32)
            r1 = r1 * r1; // 2^(r * 64)
            r1 = r1 * r1; // 2^(r * 128)
            r1 = r1 * r1; // 2^(r * 256)
            r1 = r1 * r1; // 2^(r * 512)

            //let r1 = polynomial!(r, 1.0, EXP2_COEFFS);
            if k == 0.0 {
                r1
            } else {
                // the scaled low word can round up to a half-ulp tie when it underflows
                crate::arithmetic::fast_two_sum(mul_pow2(r1.hi, k as i32), mul_pow2(r1.lo, k as i32))
            }
        }
    }

    /// Returns the natural logarithm of the value.
    ///
    /// Uses Newton–Raphson iteration which depends on the `exp` function, so
    /// may not be fully accurate to the full precision of a `TwoFloat`.
    ///
    /// # Example
    ///
    /// ```
    /// let a = twofloat::consts::E.ln();
    /// assert!((a - 1.0).abs() < 1e-31);
    /// ```
    pub fn ln(self) -> Self {
        if self == 1.0 {
            Self::from(0.0)
        } else if self <= 0.0 {
            Self::NAN
        } else {
            let mut x = Self::from(libm::log(self.hi));
            x += self * (-x).exp() - 1.0;
            x += self * (-x).exp() - 1.0;
            x + self * (-x).exp() - 1.0
        }
    }

    /// Returns the natural logarithm of `1 + self`.
    ///
    /// Uses Newton–Raphson iteration which depends on the `expm1` function
    ///
    /// # Example
    ///
    /// ```
    /// # use twofloat::TwoFloat;
    /// let a = TwoFloat::from(-0.5);
    /// let b = a.ln_1p();
    /// let c = -twofloat::consts::LN_2;//0.1f64.ln_1p();
    /// assert!((b - c).abs() < 1e-29);
    /// ```
    pub fn ln_1p(self) -> Self {
        if self == 0.0 {
            Self::from(0.0)
        } else if self <= -1.0 {
            Self::NAN
        } else if self.hi <= -0.5 {
            // 1 + x is computed exactly here; the Newton iteration below loses
            // all accuracy (and yields NaN) as x approaches -1
            (1.0 + self).ln()
        } else {
            let mut x = Self::from(libm::log1p(self.hi));
            let mut e = x.exp_m1();
            x -= (e - self) / (e + 1.0);
            e = x.exp_m1();
            x - (e - self) / (e + 1.0)
        }
    }

    /// Returns the logarithm of the number with respect to an arbitrary base.
    ///
    /// This is a convenience method that computes `self.ln() / base.ln()`, no
    /// additional accuracy is provided.
    ///
    /// # Examples
    ///
    /// ```
    /// # use twofloat::TwoFloat;
    /// let a = TwoFloat::from(81.0);
    /// let b = TwoFloat::from(3.0);
    /// let c = TwoFloat::log(a, b);
    ///
    /// assert!((c - 4.0).abs()/4.0 < 1e-31);
    /// ```
    pub fn log(self, base: Self) -> Self {
        self.ln() / base.ln()
    }

    /// Returns the base 2 logarithm of the number.
    ///
    /// Uses Newton–Raphson iteration which depends on the `exp2` function,
    /// so may not be fully accurate to the full precision of a `TwoFloat`.
    ///
    /// # Examples
    ///
    /// ```
    /// # use twofloat::TwoFloat;
    /// let a = TwoFloat::from(64.0).log2();
    ///
    /// assert!(a - 6.0 == 0.0, "{}", a);
    /// ```
    pub fn log2(self) -> Self {
        if self == 1.0 {
            Self::from(0.0)
        } else if self <= 0.0 {
            Self::NAN
        } else {
            let mut x = Self::from(libm::log2(self.hi));
            x += (self * (-x).exp2() - 1.0) * FRAC_1_LN_2;
            x + (self * (-x).exp2() - 1.0) * FRAC_1_LN_2
        }
    }

    /// Returns the base 10 logarithm of the number.
    ///
    /// This is a convenience method that computes `self.ln() / LN_10`, no
    /// additional accuracy is provided.
    ///
    /// # Examples
    ///
    /// ```
    /// # use twofloat::TwoFloat;
    /// let a = TwoFloat::from(100.0).log10();
    /// assert!((a - 2.0).abs() < 1e-30, "{}", a);
    /// ```
    pub fn log10(self) -> Self {
        self.ln() / LN_10
    }
}

#[cfg(test)]
mod tests {
    use crate::TwoFloat;

    #[test]
    fn exp_test() {
        assert_eq!(
            TwoFloat::from(-1000.0).exp(),
            0.0,
            "Large negative exponent produced non-zero value"
        );
        assert!(
            !TwoFloat::from(1000.0).exp().is_valid(),
            "Large positive exponent produced valid value"
        );
        assert_eq!(
            TwoFloat::from(0.0).exp(),
            TwoFloat::from(1.0),
            "exp(0) did not return 1"
        );
    }

    #[test]
    fn ln_test() {
        assert!(
            !TwoFloat::from(0.0).ln().is_valid(),
            "ln(0) produced valid result"
        );
        assert!(
            !TwoFloat::from(-5.0).ln().is_valid(),
            "ln(negative) produced valid result"
        );
        assert_eq!(
            TwoFloat::from(1.0).ln(),
            TwoFloat::from(0.0),
            "ln(1) did not return 0"
        );
    }
}
