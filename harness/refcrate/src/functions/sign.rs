use crate::TwoFloat;

impl TwoFloat {
    /// Returns the absolute value root of `self`.
    ///
    /// # Examples
    ///
    /// ```
    /// # use twofloat::TwoFloat;
    /// let a = TwoFloat::new_add(1.0, 1.0e-300).abs();
    /// let b = TwoFloat::new_add(-1.0, 1.0e-300).abs();
    ///
    /// assert_eq!(a, TwoFloat::new_add(1.0, 1.0e-300));
    /// assert_eq!(b, TwoFloat::new_add(1.0, -1.0e-300));
    /// ```
    pub fn abs(&self) -> Self {
        if self.hi > 0.0
            || (self.hi == 0.0 && self.hi.is_sign_positive() && self.lo.is_sign_positive())
        {
            *self
        } else {
            -self
        }
    }

    /// Returns `true` if `self` has a positive sign, including `+0.0`.
    ///
    /// # Examples
    ///
    /// ```
    /// # use twofloat::TwoFloat;
    /// let a = TwoFloat::new_add(0.0, 0.0).is_sign_positive();
    /// let b = TwoFloat::new_add(1.0, 1.0e-300).is_sign_positive();
    /// let c = TwoFloat::new_add(-1.0, 1.0e-300).is_sign_positive();
    ///
    /// assert!(a);
    /// assert!(b);
    /// assert!(!c);
    /// ```
    pub fn is_sign_positive(&self) -> bool {
        self.hi.is_sign_positive()
    }

    /// Returns `true` if `self` has a negative sign, including `-0.0`.
    ///
    /// # Examples
    ///
    /// ```
    /// # use twofloat::TwoFloat;
    /// let a = TwoFloat::new_add(-1.0, 1.0e-300).is_sign_negative();
    /// let b = TwoFloat::new_add(0.0, 0.0).is_sign_negative();
    /// let c = TwoFloat::new_add(1.0, 1.0e-300).is_sign_negative();
    ///
    /// assert!(a);
    /// assert!(!b);
    /// assert!(!c);
    /// ```
    pub fn is_sign_negative(&self) -> bool {
        self.hi.is_sign_negative()
    }

    /// Returns a number composed of the magnitude of `self` and the sign of
    /// `sign`.
    ///
    /// Equal to `self` if the sign of `self` and `sign` are the same,
    /// otherwise equal to `-self`.
    ///
    /// # Examples
    ///
    /// ```
    /// # use twofloat::TwoFloat;
    /// let a = TwoFloat::new_add(-1.0, 1.0e-200);
    /// let b = TwoFloat::new_add(1.0, 0.3);
    /// let c = a.copysign(&b);
    ///
    /// assert_eq!(c, -a);
    /// ```
    pub fn copysign(&self, sign: &Self) -> Self {
        if self.is_sign_positive() == sign.is_sign_positive() {
            *self
        } else {
            -self
        }
    }

    /// Returns a number that represents the sign of the value.
    ///
    /// * `1.0` if the number is positive or `+0.0`
    /// * `-1.0` if the number is negative or `-0.0`
    /// * Invalid value otherwise
    ///
    /// # Examples
    /// # use twofloat::TwoFloat;
    /// let a = TwoFloat::from(3.5);
    /// let b = TwoFloat::from(-0.0);
    ///
    /// assert_eq!(a.signum(), 1.0);
    /// assert_eq!(b.signum(), -1.0);
    pub fn signum(&self) -> Self {
        if self.is_valid() {
            if self.is_sign_positive() {
                Self::from(1.0)
            } else {
                Self::from(-1.0)
            }
        } else {
            Self::NAN
        }
    }
}

#[cfg(test)]
mod tests {
    use crate::TwoFloat;

    #[test]
    fn abs_test() {
        assert_eq!(
            TwoFloat { hi: 0.0, lo: 0.0 }.abs(),
            TwoFloat { hi: 0.0, lo: 0.0 }
        );
        assert!(TwoFloat { hi: 0.0, lo: -0.0 }.abs().lo.is_sign_positive());
        assert!(TwoFloat { hi: -0.0, lo: 0.0 }.abs().lo.is_sign_negative());
    }

    #[test]
    fn is_sign_positive_test() {
        assert!(TwoFloat { hi: 0.0, lo: -0.0 }.is_sign_positive());
        assert!(!TwoFloat { hi: -0.0, lo: 0.0 }.is_sign_positive());
        assert!(!TwoFloat { hi: -0.0, lo: -0.0 }.is_sign_positive());
        assert!(TwoFloat {
            hi: 1.0,
            lo: -1e-300
        }
        .is_sign_positive());
        assert!(!TwoFloat {
            hi: -1.0,
            lo: -1e-300
        }
        .is_sign_positive());
    }

    #[test]
    fn is_sign_negative_test() {
        assert!(!TwoFloat { hi: 0.0, lo: -0.0 }.is_sign_negative());
        assert!(TwoFloat { hi: -0.0, lo: 0.0 }.is_sign_negative());
        assert!(TwoFloat { hi: -0.0, lo: -0.0 }.is_sign_negative());
        assert!(!TwoFloat {
            hi: 1.0,
            lo: -1e-300
        }
        .is_sign_negative());
        assert!(TwoFloat {
            hi: -1.0,
            lo: -1e-300
        }
        .is_sign_negative());
    }
}
