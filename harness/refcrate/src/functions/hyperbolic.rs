use crate::TwoFloat;

impl TwoFloat {
    /// Hyperbolic cosine function.
    ///
    /// This is a convenience method that computes the value by calling the
    /// exponential function.
    ///
    /// # Examples
    ///
    /// ```
    /// # use twofloat::TwoFloat;
    /// let a = TwoFloat::from(2.0);
    /// let b = a.cosh();
    /// let c = 2.0f64.cosh();
    ///
    /// assert!((b - c).abs() < 1e-10);
    /// ```
    pub fn cosh(self) -> Self {
        self.exp() / 2.0 + (-self).exp() / 2.0
    }

    /// Hyperbolic sine function.
    ///
    /// This is a convenience method that computes the value by calling the
    /// exponential function.
    ///
    /// # Examples
    ///
    /// ```
    /// # use twofloat::TwoFloat;
    /// let a = TwoFloat::from(2.0);
    /// let b = a.sinh();
    /// let c = 2.0f64.sinh();
    ///
    /// assert!((b - c).abs() < 1e-10);
    /// ```
    pub fn sinh(self) -> Self {
        self.exp() / 2.0 - (-self).exp() / 2.0
    }

    /// Hyperbolic tangent function.
    ///
    /// This is a convenience method that computes the value by calling the
    /// exponential function.
    ///
    /// # Examples
    ///
    /// ```
    /// # use twofloat::TwoFloat;
    /// let a = TwoFloat::from(2.0);
    /// let b = a.tanh();
    /// let c = 2.0f64.tanh();
    ///
    /// assert!((b - c).abs() < 1e-10);
    /// ```
    pub fn tanh(self) -> Self {
        let e_plus = self.exp();
        let e_minus = (-self).exp();
        (e_plus - e_minus) / (e_plus + e_minus)
    }

    /// Inverse hyperbolic cosine function.
    ///
    /// This is a convenience method that computes the value by calling the
    /// `sqrt` and `ln` functions.
    ///
    /// # Examples
    ///
    /// ```
    /// # use twofloat::TwoFloat;
    /// let a = TwoFloat::from(2.0);
    /// let b = a.acosh();
    /// let c = 2.0f64.acosh();
    ///
    /// assert!((b - c).abs() < 1e-10);
    /// ```
    pub fn acosh(self) -> Self {
        if self < 1.0 {
            return Self::NAN;
        }
        (self + (self * self - 1.0).sqrt()).ln()
    }

    /// Inverse hyperbolic sine function.
    ///
    /// This is a convenience method that computes the value by calling the
    /// `sqrt` and `ln` functions.
    ///
    /// # Examples
    ///
    /// ```
    /// # use twofloat::TwoFloat;
    /// let a = TwoFloat::from(2.0);
    /// let b = a.asinh();
    /// let c = 2.0f64.asinh();
    ///
    /// assert!((b - c).abs() < 1e-10);
    /// ```
    pub fn asinh(self) -> Self {
        if self.is_sign_negative() {
            // odd symmetry: x + sqrt(x^2 + 1) cancels catastrophically for negative x
            return -(-self).asinh();
        }
        (self + (self * self + 1.0).sqrt()).ln()
    }

    /// Inverse hyperbolic tangent function.
    ///
    /// This is a convenience method that computes the value by calling the
    /// `ln` function.
    ///
    /// # Examples
    ///
    /// ```
    /// # use twofloat::TwoFloat;
    /// let a = TwoFloat::from(0.5);
    /// let b = a.atanh();
    /// let c = 0.5f64.atanh();
    ///
    /// assert!((b - c).abs() < 1e-10);
    /// ```
    pub fn atanh(self) -> Self {
        ((1.0 + self) / (1.0 - self)).ln() / 2.0
    }
}
