macro_rules! polynomial {
    ($x:ident, $poly:expr) => {
        {
            let mut iter = $poly.iter().rev();
            let init = iter.next().unwrap();
            iter.fold(*init, |a, n| $x * a + n)
        }
    };
    ($x:ident, $coeff:expr, $($coeffs:expr),+) => (
        $x * polynomial!($x, $($coeffs),+) + $coeff
    );
}
