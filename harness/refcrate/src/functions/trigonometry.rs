use core::convert::TryFrom;

use hexf::hexf64;

use crate::{
    consts::{FRAC_PI_2, FRAC_PI_4, PI},
    TwoFloat,
};

// Polynomial coefficients of sin(x)-x on [0,pi/4]
const SIN_COEFFS: [TwoFloat; 7] = [
    TwoFloat {
        hi: hexf64!("-0x1.5555555555555p-3"),
        lo: hexf64!("-0x1.3a26e9901c14ap-57"),
    },
    TwoFloat {
        hi: hexf64!("0x1.1111111111105p-7"),
        lo: hexf64!("-0x1.487cfb2f402fap-63"),
    },
    TwoFloat {
        hi: hexf64!("-0x1.a01a01a017e07p-13"),
        lo: hexf64!("-0x1.22340ff667d3fp-67"),
    },
    TwoFloat {
        hi: hexf64!("0x1.71de3a526314fp-19"),
        lo: hexf64!("0x1.1ddd0a161cfa7p-75"),
    },
    TwoFloat {
        hi: hexf64!("-0x1.ae6451ad6a8ebp-26"),
        lo: hexf64!("0x1.cb014c3ddfd85p-84"),
    },
    TwoFloat {
        hi: hexf64!("0x1.612010f363e7dp-33"),
        lo: hexf64!("0x1.0dba7b1b83a01p-88"),
    },
    TwoFloat {
        hi: hexf64!("-0x1.aa6c431516f76p-41"),
        lo: hexf64!("0x1.df71e9b9b179bp-95"),
    },
];

// Polynomial coefficients of cos(x)-1+x^2/2 on [0,pi/4]
const COS_COEFFS: [TwoFloat; 7] = [
    TwoFloat {
        hi: hexf64!("0x1.5555555555555p-5"),
        lo: hexf64!("0x1.4b27f9ddea57ap-59"),
    },
    TwoFloat {
        hi: hexf64!("-0x1.6c16c16c16c0fp-10"),
        lo: hexf64!("0x1.1e7208a68629bp-64"),
    },
    TwoFloat {
        hi: hexf64!("0x1.a01a01a018bcdp-16"),
        lo: hexf64!("0x1.adea7f883a49cp-71"),
    },
    TwoFloat {
        hi: hexf64!("-0x1.27e4fb75e002ap-22"),
        lo: hexf64!("-0x1.a26582a390382p-76"),
    },
    TwoFloat {
        hi: hexf64!("0x1.1eed8c87a5a51p-29"),
        lo: hexf64!("-0x1.551d13b8d9c61p-85"),
    },
    TwoFloat {
        hi: hexf64!("-0x1.93931ca96bc22p-37"),
        lo: hexf64!("0x1.25124fcc17b3fp-91"),
    },
    TwoFloat {
        hi: hexf64!("0x1.aabaa8059719cp-45"),
        lo: hexf64!("0x1.4cf2f15ef56d1p-99"),
    },
];

// Polynomial coefficients of tan(x)-x on [0,pi/4]
const TAN_COEFFS: [TwoFloat; 14] = [
    TwoFloat {
        hi: hexf64!("0x1.555555555530fp-2"),
        lo: hexf64!("-0x1.38ef22c4b8238p-56"),
    },
    TwoFloat {
        hi: hexf64!("0x1.111111112c40ap-3"),
        lo: hexf64!("0x1.db464d0cd9cb4p-57"),
    },
    TwoFloat {
        hi: hexf64!("0x1.ba1ba1a984e9fp-5"),
        lo: hexf64!("0x1.b2454b6b23d17p-61"),
    },
    TwoFloat {
        hi: hexf64!("0x1.664f4b43a4fefp-6"),
        lo: hexf64!("0x1.bb1ac07d3ba2fp-61"),
    },
    TwoFloat {
        hi: hexf64!("0x1.226ded039b30dp-7"),
        lo: hexf64!("-0x1.9110570c2853ap-63"),
    },
    TwoFloat {
        hi: hexf64!("0x1.d6ddaf4100a51p-9"),
        lo: hexf64!("-0x1.654e37a706894p-65"),
    },
    TwoFloat {
        hi: hexf64!("0x1.7d2be8d9e1761p-10"),
        lo: hexf64!("-0x1.d33168adc5b21p-64"),
    },
    TwoFloat {
        hi: hexf64!("0x1.395c8b79b1e68p-11"),
        lo: hexf64!("-0x1.5c77d3711fefdp-66"),
    },
    TwoFloat {
        hi: hexf64!("0x1.c3c79cdabdf3ep-13"),
        lo: hexf64!("0x1.7af98e21b704bp-69"),
    },
    TwoFloat {
        hi: hexf64!("0x1.399dadec87c3ap-13"),
        lo: hexf64!("-0x1.793a97fd365d5p-68"),
    },
    TwoFloat {
        hi: hexf64!("-0x1.6a82ab57290c9p-15"),
        lo: hexf64!("0x1.48e1069bffaafp-73"),
    },
    TwoFloat {
        hi: hexf64!("0x1.b3221d6d8c4b6p-14"),
        lo: hexf64!("-0x1.049e004213205p-69"),
    },
    TwoFloat {
        hi: hexf64!("-0x1.b4a2a3d0229eap-15"),
        lo: hexf64!("0x1.cb2115b70d6e3p-69"),
    },
    TwoFloat {
        hi: hexf64!("0x1.7917a05c89f91p-16"),
        lo: hexf64!("-0x1.9ff84f5cc7024p-70"),
    },
];

// Polynomial coefficients of asin(x)-x on [0,0.5]
const ASIN_COEFFS: [TwoFloat; 10] = [
    TwoFloat {
        hi: hexf64!("0x1.5555555505a93p-3"),
        lo: hexf64!("0x1.d240d1c705854p-58"),
    },
    TwoFloat {
        hi: hexf64!("0x1.333333830962bp-4"),
        lo: hexf64!("-0x1.af55ce0405fecp-62"),
    },
    TwoFloat {
        hi: hexf64!("0x1.6db6bb3abd092p-5"),
        lo: hexf64!("-0x1.cfdfea864322ap-61"),
    },
    TwoFloat {
        hi: hexf64!("0x1.f1ce012f15aafp-6"),
        lo: hexf64!("0x1.5fe81afd0c561p-72"),
    },
    TwoFloat {
        hi: hexf64!("0x1.6e1af8b2e827ep-6"),
        lo: hexf64!("-0x1.b3283f59c2f09p-60"),
    },
    TwoFloat {
        hi: hexf64!("0x1.20d826a6a4d9fp-6"),
        lo: hexf64!("-0x1.2408819e30e3ep-61"),
    },
    TwoFloat {
        hi: hexf64!("0x1.8d6db633c567p-7"),
        lo: hexf64!("0x1.58838200dd463p-61"),
    },
    TwoFloat {
        hi: hexf64!("0x1.3c047f5666c57p-6"),
        lo: hexf64!("-0x1.c0881063edf9dp-62"),
    },
    TwoFloat {
        hi: hexf64!("-0x1.401c69a113918p-7"),
        lo: hexf64!("-0x1.838c090a26969p-64"),
    },
    TwoFloat {
        hi: hexf64!("0x1.119827a2d86aap-5"),
        lo: hexf64!("-0x1.fa4bf3377ba39p-59"),
    },
];

// Polynomial coefficients of atan(x) - x on [0, 7/16]
const ATAN_COEFFS: [TwoFloat; 15] = [
    TwoFloat {
        hi: hexf64!("-0x1.5555555555555p-2"),
        lo: hexf64!("-0x1.5381cace077adp-56"),
    },
    TwoFloat {
        hi: hexf64!("0x1.9999999999998p-3"),
        lo: hexf64!("0x1.4577ef010e069p-57"),
    },
    TwoFloat {
        hi: hexf64!("-0x1.24924924923d5p-3"),
        lo: hexf64!("-0x1.431a104911639p-57"),
    },
    TwoFloat {
        hi: hexf64!("0x1.c71c71c71501dp-4"),
        lo: hexf64!("-0x1.5849ad667389fp-61"),
    },
    TwoFloat {
        hi: hexf64!("-0x1.745d17445bf06p-4"),
        lo: hexf64!("0x1.bb4a56bf72341p-58"),
    },
    TwoFloat {
        hi: hexf64!("0x1.3b13b109e4298p-4"),
        lo: hexf64!("-0x1.e54aeaea9366cp-59"),
    },
    TwoFloat {
        hi: hexf64!("-0x1.11110c8317554p-4"),
        lo: hexf64!("0x1.fe1cb3fb72cafp-62"),
    },
    TwoFloat {
        hi: hexf64!("0x1.e1e14573d9e46p-5"),
        lo: hexf64!("-0x1.9e0fa521514a9p-59"),
    },
    TwoFloat {
        hi: hexf64!("-0x1.af20ae13002ecp-5"),
        lo: hexf64!("0x1.ac847d2d89e0cp-59"),
    },
    TwoFloat {
        hi: hexf64!("0x1.85cf5eca1206ap-5"),
        lo: hexf64!("0x1.1e116d4ec0f01p-62"),
    },
    TwoFloat {
        hi: hexf64!("-0x1.622b3e8cca965p-5"),
        lo: hexf64!("-0x1.facb65280deecp-60"),
    },
    TwoFloat {
        hi: hexf64!("0x1.3d3ea913f5499p-5"),
        lo: hexf64!("-0x1.5fa025bf396bbp-59"),
    },
    TwoFloat {
        hi: hexf64!("-0x1.07d293dcdabe9p-5"),
        lo: hexf64!("-0x1.7b32fa28e715p-59"),
    },
    TwoFloat {
        hi: hexf64!("0x1.5f9188357ee62p-6"),
        lo: hexf64!("-0x1.a21e25eaaf1d8p-66"),
    },
    TwoFloat {
        hi: hexf64!("-0x1.09daee4762a73p-7"),
        lo: hexf64!("0x1.fbd4cc667e59dp-61"),
    },
];

const ATAN_FRAC_1_2: TwoFloat = TwoFloat {
    hi: hexf64!("0x1.dac670561bb4fp-2"),
    lo: hexf64!("0x1.a2b7f222f65e2p-56"),
};

const ATAN_FRAC_3_2: TwoFloat = TwoFloat {
    hi: hexf64!("0x1.f730bd281f69bp-1"),
    lo: hexf64!("0x1.007887af0cbbdp-56"),
};

fn quadrant(value: TwoFloat) -> (TwoFloat, i8) {
    if value.abs() < FRAC_PI_4 {
        #[cfg(feature = "verif_hooks")]
        crate::verif_hooks::touch(crate::verif_hooks::SITE_QUADRANT, 0);
        (value, 0)
    } else {
        let quotient = (value / FRAC_PI_2).round();
        let remainder = value - quotient * FRAC_PI_2;
        #[cfg(feature = "verif_hooks")]
        crate::verif_hooks::touch(
            crate::verif_hooks::SITE_QUADRANT,
            match i8::try_from(quotient % 4.0) {
                Ok(q) if (-4..4).contains(&q) => (q + 5) as usize,
                _ => 9,
            },
        );
        match i8::try_from(quotient % 4.0) {
            Ok(quadrant) if quadrant >= 0 => (remainder, quadrant),
            Ok(quadrant) if quadrant >= -4 => (remainder, 4 + quadrant),
            _ => (TwoFloat::NAN, 0),
        }
    }
}

fn restricted_sin(x: TwoFloat) -> TwoFloat {
    let x2 = x * x;
    x * polynomial!(x2, 1.0, SIN_COEFFS)
}

fn restricted_cos(x: TwoFloat) -> TwoFloat {
    let x2 = x * x;
    polynomial!(x2, 1.0, -0.5, COS_COEFFS)
}

fn restricted_tan(x: TwoFloat) -> TwoFloat {
    let x2 = x * x;
    x * polynomial!(x2, 1.0, TAN_COEFFS)
}

fn restricted_asin(x: TwoFloat) -> TwoFloat {
    let x2 = x * x;
    x * polynomial!(x2, 1.0, ASIN_COEFFS)
}

fn restricted_atan(x: TwoFloat) -> TwoFloat {
    let x2 = x * x;
    x * polynomial!(x2, 1.0, ATAN_COEFFS)
}

impl TwoFloat {
    /// Computes the sine of the value (in radians).
    ///
    /// # Examples
    ///
    /// ```
    /// # use twofloat::TwoFloat;
    /// let a = TwoFloat::from(2.5);
    /// let b = a.sin();
    /// let c = 2.5f64.sin();
    ///
    /// assert!((b - c).abs() < 1e-10);
    /// ```
    pub fn sin(self) -> Self {
        if !self.is_valid() {
            return Self::NAN;
        }
        let (x, quadrant) = quadrant(self);
        match quadrant {
            0 => restricted_sin(x),
            1 => restricted_cos(x),
            2 => -restricted_sin(x),
            _ => -restricted_cos(x),
        }
    }

    /// Computes the cosine of the value (in radians)
    ///
    /// # Examples
    ///
    /// ```
    /// # use twofloat::TwoFloat;
    /// let a = TwoFloat::from(2.5);
    /// let b = a.cos();
    /// let c = 2.5f64.cos();
    ///
    /// assert!((b - c).abs() < 1e-10);
    /// ```
    pub fn cos(self) -> Self {
        if !self.is_valid() {
            return Self::NAN;
        }
        let (x, quadrant) = quadrant(self);
        match quadrant {
            0 => restricted_cos(x),
            1 => -restricted_sin(x),
            2 => -restricted_cos(x),
            _ => restricted_sin(x),
        }
    }

    /// Simultaneously computes the sine and cosine of the value. Returns a
    /// tuple with the sine as the first element and the cosine as the second
    /// element.
    ///
    /// # Examples
    ///
    /// ```
    /// # use twofloat::TwoFloat;
    /// let a = TwoFloat::from(2.5);
    /// let (s, c) = a.sin_cos();
    ///
    /// assert!((s - 2.5f64.sin()).abs() < 1e-10);
    /// assert!((c - 2.5f64.cos()).abs() < 1e-10);
    /// ```
    pub fn sin_cos(self) -> (Self, Self) {
        if !self.is_valid() {
            return (Self::NAN, Self::NAN);
        }
        let (x, quadrant) = quadrant(self);
        let s = restricted_sin(x);
        let c = restricted_cos(x);
        match quadrant {
            0 => (s, c),
            1 => (c, -s),
            2 => (-s, -c),
            _ => (-c, s),
        }
    }

    /// Computes the tangent of the value (in radians).
    ///
    /// # Examples
    ///
    /// ```
    /// # use twofloat::TwoFloat;
    /// let a = TwoFloat::from(2.5);
    /// let b = a.tan();
    /// let c = 2.5f64.tan();
    ///
    /// assert!((b - c).abs() < 1e-10);
    /// ```
    pub fn tan(self) -> Self {
        if !self.is_valid() {
            return self;
        }
        let (x, quadrant) = quadrant(self);
        match quadrant {
            0 | 2 => restricted_tan(x),
            _ => -1.0 / restricted_tan(x),
        }
    }

    /// Computes the arcsine of the value. Return value is in radians in the
    /// range [-π/2, π/2] or an invalid value if the input value is outside
    /// the range [-1, 1].
    ///
    /// # Examples
    ///
    /// ```
    /// # use twofloat::TwoFloat;
    /// let a = TwoFloat::from(0.7);
    /// let b = a.asin();
    /// let c = 0.7f64.asin();
    ///
    /// assert!((b - c).abs() < 1e-10);
    /// ```
    pub fn asin(self) -> Self {
        let abs_val = self.abs();
        if !self.is_valid() || abs_val > 1.0 {
            Self::NAN
        } else if abs_val <= 0.5 {
            restricted_asin(self)
        } else {
            let result = FRAC_PI_2 - 2.0 * restricted_asin(((1.0 - self.abs()) / 2.0).sqrt());
            if self.is_sign_positive() {
                result
            } else {
                -result
            }
        }
    }

    /// Computes the arccosine of the value. Return value is in radians in
    /// the range [0, π] or an invalid value if the input value is outside
    /// the range [-1, 1].
    ///
    /// # Examples
    ///
    /// ```
    /// # use twofloat::TwoFloat;
    /// let a = TwoFloat::from(-0.8);
    /// let b = a.acos();
    /// let c = (-0.8f64).acos();
    ///
    /// assert!((b - c).abs() < 1e-10);
    /// ```
    pub fn acos(self) -> Self {
        let x = self.asin();
        if x.is_valid() {
            FRAC_PI_2 - x
        } else {
            x
        }
    }

    /// Computes the arctangent of the value. Return value is in radians in
    /// the range [-π/2, π/2].
    ///
    /// # Examples
    ///
    /// ```
    /// # use twofloat::TwoFloat;
    /// let a = TwoFloat::from(3.5);
    /// let b = a.atan();
    /// let c = 3.5f64.atan();
    ///
    /// assert!((b - c).abs() < 1e-10);
    /// ```
    pub fn atan(self) -> Self {
        if !self.is_valid() {
            Self::NAN
        } else if self.hi.is_infinite() {
            if self.hi.is_sign_positive() {
                FRAC_PI_2
            } else {
                -FRAC_PI_2
            }
        } else {
            let x = self.abs();
            let k = 4.0 * x + 0.25;
            if k <= 2.0 {
                return restricted_atan(self);
            }

            let result = if k < 3.0 {
                ATAN_FRAC_1_2 + restricted_atan((x - 0.5) / (1.0 + 0.5 * x))
            } else if k < 5.0 {
                FRAC_PI_4 + restricted_atan((x - 1.0) / (1.0 + x))
            } else if k < 10.0 {
                ATAN_FRAC_3_2 + restricted_atan((x - 1.5) / (1.0 + 1.5 * x))
            } else {
                FRAC_PI_2 - restricted_atan(x.recip())
            };

            if self.is_sign_positive() {
                result
            } else {
                -result
            }
        }
    }

    /// Computes the four quadrant arctangent of `self` (y) and `other` (x)
    /// in radians.
    ///
    /// # Examples
    ///
    /// ```
    /// # use twofloat::TwoFloat;
    /// let y = TwoFloat::from(-1.0);
    /// let x = TwoFloat::from(-1.0);
    /// let theta = TwoFloat::atan2(y, x);
    ///
    /// assert!((theta + 3.0 * twofloat::consts::FRAC_PI_4).abs() < 1e-10);
    /// ```
    pub fn atan2(self, other: Self) -> Self {
        if self.hi == 0.0 {
            if other.hi.is_sign_positive() {
                Self::from(0.0)
            } else if self.hi.is_sign_positive() {
                PI
            } else {
                -PI
            }
        } else if other.hi == 0.0 {
            if self.hi.is_sign_positive() {
                FRAC_PI_2
            } else {
                -FRAC_PI_2
            }
        } else {
            let a = (self / other).atan();
            if other.hi.is_sign_positive() {
                a
            } else if self.hi.is_sign_positive() {
                a + PI
            } else {
                a - PI
            }
        }
    }
}

#[cfg(test)]
mod tests {
    use super::quadrant;
    use crate::{
        consts::{FRAC_PI_2, FRAC_PI_4, PI},
        TwoFloat,
    };

    const THRESHOLD: f64 = 1e-10;

    #[test]
    fn quadrant_test() {
        assert_eq!(0, quadrant(TwoFloat::from(0.5)).1);
        assert_eq!(0, quadrant(TwoFloat::from(-0.5)).1);

        assert_eq!(1, quadrant(TwoFloat::from(2.0)).1);
        assert_eq!(3, quadrant(TwoFloat::from(-2.0)).1);

        assert_eq!(2, quadrant(TwoFloat::from(3.14)).1);
        assert_eq!(2, quadrant(TwoFloat::from(-3.14)).1);

        assert_eq!(3, quadrant(TwoFloat::from(4.0)).1);
        assert_eq!(1, quadrant(TwoFloat::from(-4.0)).1);

        assert_eq!(0, quadrant(TwoFloat::from(6.0)).1);
        assert_eq!(0, quadrant(TwoFloat::from(-6.0)).1);
    }

    #[test]
    fn sin_test() {
        assert_eq!(0.0, TwoFloat::from(0.0).sin());

        assert!((0.5f64.sin() - TwoFloat::from(0.5).sin()).abs() < THRESHOLD);
        assert!((1.4f64.sin() - TwoFloat::from(1.4).sin()).abs() < THRESHOLD);
        assert!((3.0f64.sin() - TwoFloat::from(3.0).sin()).abs() < THRESHOLD);
        assert!((4.0f64.sin() - TwoFloat::from(4.0).sin()).abs() < THRESHOLD);
        assert!((6.0f64.sin() - TwoFloat::from(6.0).sin()).abs() < THRESHOLD);

        assert!((0.5f64.sin() + TwoFloat::from(-0.5).sin()).abs() < THRESHOLD);
        assert!((1.4f64.sin() + TwoFloat::from(-1.4).sin()).abs() < THRESHOLD);
        assert!((3.0f64.sin() + TwoFloat::from(-3.0).sin()).abs() < THRESHOLD);
        assert!((4.0f64.sin() + TwoFloat::from(-4.0).sin()).abs() < THRESHOLD);
        assert!((6.0f64.sin() + TwoFloat::from(-6.0).sin()).abs() < THRESHOLD);
    }

    #[test]
    fn cos_test() {
        assert_eq!(1.0, TwoFloat::from(0.0).cos());

        assert!((0.5f64.cos() - TwoFloat::from(0.5).cos()).abs() < THRESHOLD);
        assert!((1.4f64.cos() - TwoFloat::from(1.4).cos()).abs() < THRESHOLD);
        assert!((3.0f64.cos() - TwoFloat::from(3.0).cos()).abs() < THRESHOLD);
        assert!((4.0f64.cos() - TwoFloat::from(4.0).cos()).abs() < THRESHOLD);
        assert!((6.0f64.cos() - TwoFloat::from(6.0).cos()).abs() < THRESHOLD);

        assert!((0.5f64.cos() - TwoFloat::from(-0.5).cos()).abs() < THRESHOLD);
        assert!((1.4f64.cos() - TwoFloat::from(-1.4).cos()).abs() < THRESHOLD);
        assert!((3.0f64.cos() - TwoFloat::from(-3.0).cos()).abs() < THRESHOLD);
        assert!((4.0f64.cos() - TwoFloat::from(-4.0).cos()).abs() < THRESHOLD);
        assert!((6.0f64.cos() - TwoFloat::from(-6.0).cos()).abs() < THRESHOLD);
    }

    #[test]
    fn tan_test() {
        assert_eq!(0.0, TwoFloat::from(0.0).tan());

        assert!((0.5f64.tan() - TwoFloat::from(0.5).tan()).abs() < THRESHOLD);
        assert!((1.4f64.tan() - TwoFloat::from(1.4).tan()).abs() < THRESHOLD);
        assert!((3.0f64.tan() - TwoFloat::from(3.0).tan()).abs() < THRESHOLD);
        assert!((4.0f64.tan() - TwoFloat::from(4.0).tan()).abs() < THRESHOLD);
        assert!((6.0f64.tan() - TwoFloat::from(6.0).tan()).abs() < THRESHOLD);

        assert!((0.5f64.tan() + TwoFloat::from(-0.5).tan()).abs() < THRESHOLD);
        assert!((1.4f64.tan() + TwoFloat::from(-1.4).tan()).abs() < THRESHOLD);
        assert!((3.0f64.tan() + TwoFloat::from(-3.0).tan()).abs() < THRESHOLD);
        assert!((4.0f64.tan() + TwoFloat::from(-4.0).tan()).abs() < THRESHOLD);
        assert!((6.0f64.tan() + TwoFloat::from(-6.0).tan()).abs() < THRESHOLD);
    }

    #[test]
    fn asin_test() {
        assert_eq!(0.0, TwoFloat::from(0.0).asin());
        assert!((0.25f64.asin() - TwoFloat::from(0.25).asin()) < THRESHOLD);
        assert!((0.75f64.asin() - TwoFloat::from(0.75).asin()) < THRESHOLD);
        assert!((TwoFloat::from(1.0).asin() - FRAC_PI_2).abs() < THRESHOLD);

        assert!((0.25f64.asin() + TwoFloat::from(-0.25).asin()) < THRESHOLD);
        assert!((0.75f64.asin() + TwoFloat::from(-0.75).asin()) < THRESHOLD);
        assert!((TwoFloat::from(-1.0).asin() + FRAC_PI_2).abs() < THRESHOLD);
    }

    #[test]
    fn acos_test() {
        assert!((TwoFloat::from(0.0).acos() - FRAC_PI_2).abs() < THRESHOLD);

        assert!((0.25f64.acos() - TwoFloat::from(0.25).acos()) < THRESHOLD);
        assert!((0.75f64.acos() - TwoFloat::from(0.75).acos()) < THRESHOLD);
        assert_eq!(0.0, TwoFloat::from(1.0).acos());

        assert!((0.25f64.asin() - TwoFloat::from(-0.25).acos()) < THRESHOLD);
        assert!((0.75f64.asin() - TwoFloat::from(-0.75).acos()) < THRESHOLD);
        assert!((TwoFloat::from(-1.0).acos() - PI).abs() < THRESHOLD);
    }

    #[test]
    fn atan_test() {
        assert_eq!(0.0, TwoFloat::from(0.0).atan());

        assert!((0.25f64.atan() - TwoFloat::from(0.25).atan()).abs() < THRESHOLD);
        assert!((0.5f64.atan() - TwoFloat::from(0.5).atan()).abs() < THRESHOLD);
        assert!((FRAC_PI_4 - TwoFloat::from(1.0).atan()).abs() < THRESHOLD);
        assert!((2.25f64.atan() - TwoFloat::from(2.25).atan()).abs() < THRESHOLD);
        assert!((10.0f64.atan() - TwoFloat::from(10.0).atan()).abs() < THRESHOLD);

        assert!((0.25f64.atan() + TwoFloat::from(-0.25).atan()).abs() < THRESHOLD);
        assert!((0.5f64.atan() + TwoFloat::from(-0.5).atan()).abs() < THRESHOLD);
        assert!((FRAC_PI_4 + TwoFloat::from(-1.0).atan()).abs() < THRESHOLD);
        assert!((2.25f64.atan() + TwoFloat::from(-2.25).atan()).abs() < THRESHOLD);
        assert!((10.0f64.atan() + TwoFloat::from(-10.0).atan()).abs() < THRESHOLD);
    }

    #[test]
    fn atan2_test() {
        assert_eq!(0.0, TwoFloat::from(0.0).atan2(TwoFloat::from(0.0)));
        assert_eq!(0.0, TwoFloat::from(0.0).atan2(TwoFloat::from(1.0)));
        assert_eq!(PI, TwoFloat::from(0.0).atan2(TwoFloat::from(-1.0)));
        assert_eq!(-PI, TwoFloat::from(-0.0).atan2(TwoFloat::from(-1.0)));
        assert_eq!(FRAC_PI_2, TwoFloat::from(1.0).atan2(TwoFloat::from(0.0)));
        assert_eq!(-FRAC_PI_2, TwoFloat::from(-1.0).atan2(TwoFloat::from(0.0)));
        assert!(
            (0.73f64.atan2(0.21f64) - TwoFloat::from(0.73).atan2(TwoFloat::from(0.21))).abs()
                < THRESHOLD
        );
    }
}
