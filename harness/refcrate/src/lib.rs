/*!
# twofloat

This library provides an implementation of double-double arithmetic for the
Rust language. Note that this is not the same as the IEEE quadruple-precision
floating-point format. Instead, higher precision is obtained by representing
the value as the sum of two non-overlapping `f64` values.

## Usage

The basic type is `TwoFloat` which represents the sum of two non-overlapping
`f64` values, which may be initialized from a single `f64` or by calling a
constructor that performs an arithmetic operation on a pair of `f64` values.

```
extern crate twofloat;
use twofloat::TwoFloat;

let a = TwoFloat::from(3.4);
let b = TwoFloat::new_add(1.0, 1.0e-300);
let c = TwoFloat::new_sub(1.0, 1.0e-300);
let d = TwoFloat::new_mul(5.0, 0.7);
let e = TwoFloat::new_div(1.0, 7.0);
```

Basic arithmetic operators and comparisons are available, together with the
utility functions `abs()`, `is_positive_sign()` and `is_negative_sign()`.
Mathematical functions are provided if the `math_funcs` feature is enabled
(this is enabled by default), though the implementations should be regarded
as preliminary.

Operations on non-finite values are not supported. At the moment this is not
automatically checked. The `is_valid()` method is provided for this purpose.

If the `std` feature is enabled (as it is by default), the fused multiply-add
operation from the standard library is used. This *may* be more performant if
the target architecture has a dedicated instruction for this. See the
documentation of [`f64::mul_add`] for details. Otherwise the libm
implementation is used.

If the `serde` feature is enabled, serialization and deserialization is
possible through the Serde library.

## Known issues

* The MinGW `fma` implementation appears to give incorrect results in some
  cases, so the libm function is always used on this platform.

## References

* Mioara Joldes, Jean-Michel Muller, Valentina Popescu. Tight and rigourous
  error bounds for basic building blocks of double-word arithmetic. ACM
  Transactions on Mathematical Software, Association for Computing Machinery,
  2017, 44 (2), pp.1 - 27. 10.1145/3121432. hal-01351529v3

* Alan H. Karp, Peter Markstein. High Precision Division and Square Root. ACM
  Transactions on Mathematical Software, Association for Computing Machinery,
  1997, 23 (4), pp. 561-589. 10.1145/279232.279237.

* S. Chevillard, M. Joldeș and C. Lauter. Sollya: an environment for the
  development of numerical codes. Mathematical Software - ICMS 2010, pp.
  28–31.
*/

#![forbid(unsafe_code)]
// Disable irrelevant lints
#![allow(clippy::approx_constant)]
#![allow(clippy::excessive_precision)]
#![allow(clippy::float_cmp)]
#![allow(clippy::suspicious_arithmetic_impl)]
#![allow(clippy::suspicious_op_assign_impl)]
#![cfg_attr(not(feature = "std"), no_std)]

use core::fmt;

#[macro_use]
mod ops_util;

#[cfg(test)]
#[macro_use]
mod test_util;

mod arithmetic;
mod base;

/// Basic mathematical constants.
///
/// Values determined using Sollya.
pub mod consts;

mod convert;
mod format;
mod functions;
mod num_integration;

#[cfg(feature = "serde")]
mod serialization;

#[cfg(feature = "verif_hooks")]
pub mod verif_hooks;

pub use base::no_overlap;

pub mod iter;

/// Represents a two-word floating point type, represented as the sum of two
/// non-overlapping f64 values.
#[derive(Debug, Default, Clone, Copy)]
#[repr(C)]
pub struct TwoFloat {
    pub(crate) hi: f64,
    pub(crate) lo: f64,
}

/// The error type for `TwoFloat` operations.
#[non_exhaustive]
#[derive(Debug)]
pub enum TwoFloatError {
    /// Indicates invalid conversion to/from `TwoFloat`
    ConversionError,
    ParseError,
}

impl fmt::Display for TwoFloatError {
    fn fmt(&self, f: &mut fmt::Formatter) -> fmt::Result {
        match self {
            Self::ConversionError => f.pad("invalid TwoFloat conversion"),
            Self::ParseError => f.pad("parsing not supported"),
        }
    }
}

#[cfg(feature = "std")]
impl std::error::Error for TwoFloatError {}
