//! C10: every spelling of an operation gives bit-identical words (NaNs canonicalised).

use crate::ctx::{guard, hx, Ctx};
use crate::exact::valid_ref;
use crate::gen::*;
use crate::mon_arith::{t, w, W};
use num_traits::float::FloatCore;
use num_traits::{Float, Inv, One, Pow, Signed, Zero};
use serde_json::json;
use twofloat::TwoFloat;

type R = Result<W, String>;

fn canon(x: f64) -> u64 {
    if x.is_nan() {
        0x7ff8_0000_0000_0000
    } else {
        x.to_bits()
    }
}
fn same(a: &R, b: &R) -> bool {
    match (a, b) {
        (Ok(a), Ok(b)) => canon(a.0) == canon(b.0) && canon(a.1) == canon(b.1),
        (Err(_), Err(_)) => true,
        _ => false,
    }
}
/// Differences only in the sign of exactly-zero words?
fn zero_sign_only(a: &R, b: &R) -> bool {
    match (a, b) {
        (Ok(a), Ok(b)) => {
            let eq = |x: f64, y: f64| canon(x) == canon(y) || (x == 0.0 && y == 0.0);
            eq(a.0, b.0) && eq(a.1, b.1)
        }
        _ => false,
    }
}
fn rw(r: &R) -> Vec<u64> {
    match r {
        Ok(x) => vec![hx(x.0), hx(x.1)],
        Err(_) => vec![],
    }
}

fn cmp(c: &mut Ctx, op: &'static str, what: &str, ins: &[u64], reference: &R, other: R) {
    if !same(reference, &other) {
        let at_max = ins.iter().take(4).step_by(2).any(|w| w & 0x7fff_ffff_ffff_ffff == 0x7fef_ffff_ffff_ffff);
        let has_nan = |r: &R| matches!(r, Ok(x) if x.0.is_nan() || x.1.is_nan());
        let kind = if zero_sign_only(reference, &other) {
            "zero_sign_only"
        } else if at_max && (has_nan(reference) != has_nan(&other)) {
            // kept under its own key so that these rare records never use up the record cap of "differs"
            "differs_at_f64_max"
        } else {
            "differs"
        };
        let mut o = rw(reference);
        o.extend(rw(&other));
        let d = match (&reference, &other) {
            (Err(m), _) | (_, Err(m)) => format!("{what}: one spelling panicked: {m}"),
            _ => format!("{what}: words differ from the reference spelling"),
        };
        c.viol(op, kind, ins, &o, d);
    }
}

macro_rules! g {
    ($e:expr) => {
        guard(|| w($e))
    };
}

macro_rules! binop_forms {
    ($c:expr, $name:literal, $ins:expr, $a:expr, $b:expr, $op:tt, $opa:tt) => {{
        let (a, b) = ($a, $b);
        let r = g!(a $op b);
        cmp($c, $name, "&a op &b", $ins, &r, g!(&a $op &b));
        cmp($c, $name, "&a op b", $ins, &r, g!(&a $op b));
        cmp($c, $name, "a op &b", $ins, &r, g!(a $op &b));
        cmp($c, $name, "a op= b", $ins, &r, g!({ let mut x = a; x $opa b; x }));
        cmp($c, $name, "a op= &b", $ins, &r, g!({ let mut x = a; x $opa &b; x }));
        r
    }};
}
macro_rules! binop_forms_noassign {
    ($c:expr, $name:literal, $ins:expr, $a:expr, $b:expr, $op:tt) => {{
        let (a, b) = ($a, $b);
        let r = g!(a $op b);
        cmp($c, $name, "&a op &b", $ins, &r, g!(&a $op &b));
        cmp($c, $name, "&a op b", $ins, &r, g!(&a $op b));
        cmp($c, $name, "a op &b", $ins, &r, g!(a $op &b));
        r
    }};
}

pub fn c10_ops(c: &mut Ctx, a: W, b: W, f: f64) {
    let ins = [hx(a.0), hx(a.1), hx(b.0), hx(b.1), hx(f)];
    let (ta, tb) = (t(a), t(b));
    let nt = !(a.0 == 0.0 && b.0 == 0.0);
    c.note("ops", &ins, nt);
    // TF op TF
    let add = binop_forms!(c, "add/TF,TF", &ins, ta, tb, +, +=);
    let sub = binop_forms!(c, "sub/TF,TF", &ins, ta, tb, -, -=);
    let mul = binop_forms!(c, "mul/TF,TF", &ins, ta, tb, *, *=);
    let _div = binop_forms!(c, "div/TF,TF", &ins, ta, tb, /, /=);
    let _rem = binop_forms!(c, "rem/TF,TF", &ins, ta, tb, %, %=);
    // TF op f64
    let addf = binop_forms!(c, "add/TF,f64", &ins, ta, f, +, +=);
    let _ = binop_forms!(c, "sub/TF,f64", &ins, ta, f, -, -=);
    let mulf = binop_forms!(c, "mul/TF,f64", &ins, ta, f, *, *=);
    let _ = binop_forms!(c, "div/TF,f64", &ins, ta, f, /, /=);
    let _ = binop_forms!(c, "rem/TF,f64", &ins, ta, f, %, %=);
    // f64 op TF
    let fadd = binop_forms_noassign!(c, "add/f64,TF", &ins, f, ta, +);
    let _ = binop_forms_noassign!(c, "sub/f64,TF", &ins, f, ta, -);
    let fmul = binop_forms_noassign!(c, "mul/f64,TF", &ins, f, ta, *);
    let _ = binop_forms_noassign!(c, "div/f64,TF", &ins, f, ta, /);
    let _ = binop_forms_noassign!(c, "rem/f64,TF", &ins, f, ta, %);
    // the same object on both sides of the by-reference forms
    cmp(c, "self/add", "&a + &a vs a + a", &ins, &g!(ta + ta), g!(&ta + &ta));
    cmp(c, "self/sub", "&a - &a vs a - a", &ins, &g!(ta - ta), g!(&ta - &ta));
    cmp(c, "self/mul", "&a * &a vs a * a", &ins, &g!(ta * ta), g!(&ta * &ta));
    cmp(c, "self/div", "&a / &a vs a / a", &ins, &g!(ta / ta), g!(&ta / &ta));
    cmp(c, "self/rem", "&a % &a vs a % a", &ins, &g!(ta % ta), g!(&ta % &ta));
    // negation
    let neg = g!(-ta);
    cmp(c, "neg", "-&x", &ins, &neg, g!(-&ta));
    // algebraic identities listed in the statement (and only those)
    cmp(c, "id/add_commutes", "a+b vs b+a", &ins, &add, g!(tb + ta));
    cmp(c, "id/addf_commutes", "x+f vs f+x", &ins, &addf, fadd);
    cmp(c, "id/mulf_commutes", "x*f vs f*x", &ins, &mulf, fmul);
    cmp(c, "id/sub_is_add_neg", "a-b vs a+(-b)", &ins, &sub, g!(ta + (-tb)));
    cmp(c, "id/sub_antisymmetric", "a-b vs -(b-a)", &ins, &sub, g!(-(tb - ta)));
    cmp(c, "id/neg_mul", "(-a)*b vs -(a*b)", &ins, &g!((-ta) * tb), g!(-(ta * tb)));
    let _ = mul;
    cmp(c, "id/neg_neg", "-(-a) vs a", &ins, &Ok(a), g!(-(-ta)));
    c.sample("ops", || json!({"a": [a.0, a.1], "b": [b.0, b.1], "f": f}));
}

pub fn c10_sum(c: &mut Ctx) {
    let len = if c.rng.chance(1, 6) { c.rng.range(250, 1100) } else { c.rng.range(0, 24) } as usize;
    let v: Vec<W> = (0..len).map(|_| tf_in_or_zero(&mut c.rng, -200, 200)).collect();
    let tfs: Vec<TwoFloat> = v.iter().map(|&x| t(x)).collect();
    let fs: Vec<f64> = v.iter().map(|x| x.0).collect();
    let mut ins = Vec::new();
    for x in &v {
        ins.push(hx(x.0));
        ins.push(hx(x.1));
    }
    c.note("sum", &ins, len >= 2);
    let fold_t = g!(tfs.iter().fold(TwoFloat::from(0.0), |acc, x| acc + *x));
    let fold_f = g!(fs.iter().fold(TwoFloat::from(0.0), |acc, x| acc + *x));
    cmp(c, "sum", "Sum<TwoFloat>", &ins, &fold_t, g!(tfs.iter().copied().sum::<TwoFloat>()));
    cmp(c, "sum", "Sum<&TwoFloat>", &ins, &fold_t, g!(tfs.iter().sum::<TwoFloat>()));
    cmp(c, "sum", "Sum<f64>", &ins, &fold_f, g!(fs.iter().copied().sum::<TwoFloat>()));
    cmp(c, "sum", "Sum<&f64>", &ins, &fold_f, g!(fs.iter().sum::<TwoFloat>()));
}

macro_rules! un {
    ($c:expr, $ins:expr, $x:expr, $name:literal, $m:ident) => {{
        let r = g!($x.$m());
        cmp($c, concat!("trait/", $name), "Float", $ins, &r, g!(<TwoFloat as Float>::$m($x)));
        r
    }};
}
macro_rules! un_core {
    ($c:expr, $ins:expr, $x:expr, $name:literal, $m:ident) => {{
        let r = un!($c, $ins, $x, $name, $m);
        cmp($c, concat!("trait/", $name), "FloatCore", $ins, &r, g!(<TwoFloat as FloatCore>::$m($x)));
    }};
}

pub fn c10_traits(c: &mut Ctx, x: W, y: W, n: i32) {
    let ins = [hx(x.0), hx(x.1), hx(y.0), hx(y.1), n as i64 as u64];
    let (tx, ty) = (t(x), t(y));
    c.note("traits", &ins, x.0 != 0.0);
    // methods present in both Float and FloatCore
    un_core!(c, &ins, tx, "floor", floor);
    un_core!(c, &ins, tx, "ceil", ceil);
    un_core!(c, &ins, tx, "round", round);
    un_core!(c, &ins, tx, "trunc", trunc);
    un_core!(c, &ins, tx, "fract", fract);
    un_core!(c, &ins, tx, "recip", recip);
    un_core!(c, &ins, tx, "to_degrees", to_degrees);
    un_core!(c, &ins, tx, "to_radians", to_radians);
    // abs / signum take &self inherently
    let r = g!(TwoFloat::abs(&tx));
    cmp(c, "trait/abs", "Float", &ins, &r, g!(<TwoFloat as Float>::abs(tx)));
    cmp(c, "trait/abs", "FloatCore", &ins, &r, g!(<TwoFloat as FloatCore>::abs(tx)));
    cmp(c, "trait/abs", "Signed", &ins, &r, g!(<TwoFloat as Signed>::abs(&tx)));
    let r = g!(TwoFloat::signum(&tx));
    cmp(c, "trait/signum", "Float", &ins, &r, g!(<TwoFloat as Float>::signum(tx)));
    cmp(c, "trait/signum", "FloatCore", &ins, &r, g!(<TwoFloat as FloatCore>::signum(tx)));
    cmp(c, "trait/signum", "Signed", &ins, &r, g!(<TwoFloat as Signed>::signum(&tx)));
    let (p, q) = (TwoFloat::is_sign_positive(&tx), TwoFloat::is_sign_negative(&tx));
    let others = [
        (<TwoFloat as Float>::is_sign_positive(tx), <TwoFloat as Float>::is_sign_negative(tx)),
        (<TwoFloat as FloatCore>::is_sign_positive(tx), <TwoFloat as FloatCore>::is_sign_negative(tx)),
        (<TwoFloat as Signed>::is_positive(&tx), <TwoFloat as Signed>::is_negative(&tx)),
    ];
    if others.iter().any(|o| *o != (p, q)) {
        c.viol("trait/is_sign", "differs", &ins, &[p as u64, q as u64], "a trait sign query differs from the inherent one".into());
    }
    let r = g!(TwoFloat::copysign(&tx, &ty));
    cmp(c, "trait/copysign", "Float", &ins, &r, g!(<TwoFloat as Float>::copysign(tx, ty)));
    let r = g!(tx.min(ty));
    cmp(c, "trait/min", "Float", &ins, &r, g!(<TwoFloat as Float>::min(tx, ty)));
    cmp(c, "trait/min", "FloatCore", &ins, &r, g!(<TwoFloat as FloatCore>::min(tx, ty)));
    let r = g!(tx.max(ty));
    cmp(c, "trait/max", "Float", &ins, &r, g!(<TwoFloat as Float>::max(tx, ty)));
    cmp(c, "trait/max", "FloatCore", &ins, &r, g!(<TwoFloat as FloatCore>::max(tx, ty)));
    let r = g!(tx.powi(n));
    cmp(c, "trait/powi", "Float", &ins, &r, g!(<TwoFloat as Float>::powi(tx, n)));
    cmp(c, "trait/powi", "FloatCore", &ins, &r, g!(<TwoFloat as FloatCore>::powi(tx, n)));
    // Inv
    let r = g!(tx.recip());
    cmp(c, "trait/inv", "Inv", &ins, &r, g!(Inv::inv(tx)));
    cmp(c, "trait/inv", "Inv(&)", &ins, &r, g!(Inv::inv(&tx)));
    // Pow<int>
    let n8 = n.clamp(-128, 127) as i8;
    let n16 = n.clamp(-32768, 32767) as i16;
    let u8_ = n.unsigned_abs().min(255) as u8;
    let u16_ = if n % 3 == 0 { 32768u16.wrapping_add(n.unsigned_abs() as u16 & 0x7fff) } else { n.unsigned_abs().min(65535) as u16 };
    macro_rules! pow_forms {
        ($name:literal, $e:expr, $refr:expr) => {{
            let e = $e;
            let r = $refr;
            cmp(c, concat!("trait/", $name), "val,val", &ins, &r, g!(Pow::pow(tx, e)));
            cmp(c, concat!("trait/", $name), "ref,ref", &ins, &r, g!(Pow::pow(&tx, &e)));
            cmp(c, concat!("trait/", $name), "ref,val", &ins, &r, g!(Pow::pow(&tx, e)));
            cmp(c, concat!("trait/", $name), "val,ref", &ins, &r, g!(Pow::pow(tx, &e)));
        }};
    }
    pow_forms!("pow_i32", n, g!(tx.powi(n)));
    pow_forms!("pow_i16", n16, g!(tx.powi(n16 as i32)));
    pow_forms!("pow_i8", n8, g!(tx.powi(n8 as i32)));
    pow_forms!("pow_u8", u8_, g!(tx.powi(u8_ as i32)));
    pow_forms!("pow_u16", u16_, g!(tx.powi(u16_ as i32)));
    pow_forms!("pow_tf", ty, g!(tx.powf(ty)));
    pow_forms!("pow_f64", y.0, g!(tx.powf(TwoFloat::from(y.0))));
    // Float-only math methods
    un!(c, &ins, tx, "sqrt", sqrt);
    un!(c, &ins, tx, "cbrt", cbrt);
    un!(c, &ins, tx, "exp", exp);
    un!(c, &ins, tx, "exp2", exp2);
    un!(c, &ins, tx, "exp_m1", exp_m1);
    un!(c, &ins, tx, "ln", ln);
    un!(c, &ins, tx, "log2", log2);
    un!(c, &ins, tx, "log10", log10);
    un!(c, &ins, tx, "ln_1p", ln_1p);
    un!(c, &ins, tx, "sin", sin);
    un!(c, &ins, tx, "cos", cos);
    un!(c, &ins, tx, "tan", tan);
    un!(c, &ins, tx, "asin", asin);
    un!(c, &ins, tx, "acos", acos);
    un!(c, &ins, tx, "atan", atan);
    un!(c, &ins, tx, "sinh", sinh);
    un!(c, &ins, tx, "cosh", cosh);
    un!(c, &ins, tx, "tanh", tanh);
    un!(c, &ins, tx, "asinh", asinh);
    un!(c, &ins, tx, "acosh", acosh);
    un!(c, &ins, tx, "atanh", atanh);
    let r = g!(tx.powf(ty));
    cmp(c, "trait/powf", "Float", &ins, &r, g!(<TwoFloat as Float>::powf(tx, ty)));
    let r = g!(tx.log(ty));
    cmp(c, "trait/log", "Float", &ins, &r, g!(<TwoFloat as Float>::log(tx, ty)));
    let r = g!(tx.hypot(ty));
    cmp(c, "trait/hypot", "Float", &ins, &r, g!(<TwoFloat as Float>::hypot(tx, ty)));
    let r = g!(tx.atan2(ty));
    cmp(c, "trait/atan2", "Float", &ins, &r, g!(<TwoFloat as Float>::atan2(tx, ty)));
    let (s1, c1) = (g!(tx.sin_cos().0), g!(tx.sin_cos().1));
    cmp(c, "trait/sin_cos", "Float .0", &ins, &s1, g!(<TwoFloat as Float>::sin_cos(tx).0));
    cmp(c, "trait/sin_cos", "Float .1", &ins, &c1, g!(<TwoFloat as Float>::sin_cos(tx).1));
    // mul_add(a, b) == self*a + b
    let z = (y.0 * 0.75, 0.0);
    let r = g!(tx * ty + t(z));
    cmp(c, "trait/mul_add", "Float", &ins, &r, g!(<TwoFloat as Float>::mul_add(tx, ty, t(z))));
    // the same identity with special addends (every zero pattern, +-1, the factors themselves, the
    // negated product) and with factor pairs whose product underflows to a signed zero / overflows
    let tiny = |v: W, neg_lo: bool| -> W {
        let h = v.0 * pow2(-600);
        if h.is_finite() { (h, if neg_lo { -0.0 } else { 0.0 }) } else { v }
    };
    let huge = |v: W| -> W {
        let h = v.0 * pow2(520);
        if h.is_finite() && h != 0.0 { (h, 0.0) } else { v }
    };
    let prod = g!(tx * ty).ok();
    let mut zs: Vec<W> = vec![(0.0, 0.0), (-0.0, 0.0), (0.0, -0.0), (-0.0, -0.0), (1.0, 0.0), (-1.0, 0.0), x, y, (-x.0, -x.1)];
    if let Some(p) = prod {
        zs.push((-p.0, -p.1));
    }
    for (fx, fy) in [(x, y), (tiny(x, false), tiny(y, false)), (tiny(x, true), tiny(y, false)), (tiny(x, true), tiny(y, true)), (huge(x), huge(y)), (huge(x), tiny(y, true))] {
        let (ta, tb) = (t(fx), t(fy));
        for &z in &zs {
            let tz = t(z);
            let ins3 = [hx(fx.0), hx(fx.1), hx(fy.0), hx(fy.1), hx(z.0), hx(z.1)];
            let r = g!(ta * tb + tz);
            cmp(c, "trait/mul_add", "Float (special addend)", &ins3, &r, g!(<TwoFloat as Float>::mul_add(ta, tb, tz)));
        }
    }
    // Zero / One
    let zr: R = Ok((0.0, 0.0));
    cmp(c, "trait/zero", "Zero::zero", &ins, &zr, g!(<TwoFloat as Zero>::zero()));
    let on: R = Ok((1.0, 0.0));
    cmp(c, "trait/one", "One::one", &ins, &on, g!(<TwoFloat as One>::one()));
    if <TwoFloat as Zero>::is_zero(&tx) != (tx == 0.0) {
        c.viol("trait/zero", "differs", &ins, &[], "Zero::is_zero differs from x == 0".into());
    }
}

fn c10_operand(r: &mut Rng) -> W {
    match r.below(24) {
        0 => (f64::NAN, f64::NAN),
        1 => (f64::INFINITY, f64::INFINITY),
        2 => (f64::NEG_INFINITY, f64::NEG_INFINITY),
        3 => (f64::INFINITY, 0.0),
        4 => (f64::INFINITY, f64::NAN),
        5 => pk!(r, [(0.0, 0.0), (0.0, -0.0)]),
        6 => (-0.0, 0.0),
        7 => (-0.0, -0.0),
        12 | 13 => crate::pools::published_const(r),
        14 => crate::pools::round_integer(r),
        8 | 9 => tf_in(r, -1022, 1023),
        10 | 11 => tf_in(r, -3, 3),
        _ => tf_in(r, -100, 100),
    }
}

pub fn c10(c: &mut Ctx) {
    let n = c.budget(40_000_000, 2_000_000_000) / 60;
    for i in 0..n {
        let a = if c.rng.chance(1, 12) { if c.rng.coin() { tf_in(&mut c.rng, -1022, -980) } else { tf_in(&mut c.rng, 980, 1023) } } else { c10_operand(&mut c.rng) };
        let b = if a.0.is_finite() && a.0 != 0.0 && c.rng.coin() {
            let rel = c.rng.below(N_PAIR_RELS);
            tf_related(&mut c.rng, a, -1022, 1023, rel)
        } else {
            c10_operand(&mut c.rng)
        };
        let f = match c.rng.below(9) {
            8 => pow2(c.rng.range(-60, 60)) * if c.rng.coin() { 1.0 } else { -1.0 },
            0 => a.0,
            1 => -a.0,
            2 => f64_any(&mut c.rng),
            3 => 0.0,
            4 => b.0,
            _ => f64_in(&mut c.rng, -100, 100),
        };
        c10_ops(c, a, b, f);
        // trait methods on per-function meaningful domains
        let x = match i % 6 {
            0 => tf_in(&mut c.rng, -8, 0),                       // |x| < 1 (asin, atanh, ...)
            1 => {
                let (h, l) = tf_in(&mut c.rng, 0, 9);
                (h.abs(), if h < 0.0 { -l } else { l })          // x >= 1 (acosh, ln, ...)
            }
            2 => tf_in(&mut c.rng, -40, 40),
            3 => c10_operand(&mut c.rng),
            4 => tf_in(&mut c.rng, -2, 9),
            _ => {
                let (h, l) = tf_in(&mut c.rng, -30, 30);
                (h.abs(), if h < 0.0 { -l } else { l })
            }
        };
        let y = match i % 5 {
            4 => crate::pools::published_const(&mut c.rng),
            0 => (c.rng.range(-9, 9) as f64, 0.0),
            1 => tf_in(&mut c.rng, -3, 3),
            _ => c10_operand(&mut c.rng),
        };
        let nn = match c.rng.below(6) {
            0 => *[0, 1, -1, i32::MIN, i32::MAX, 2].get(c.rng.below(6) as usize).unwrap(),
            1 => c.rng.range(-70000, 70000) as i32,
            _ => c.rng.range(-40, 40) as i32,
        };
        if valid_ref(x.0, x.1) || !x.0.is_finite() {
            c10_traits(c, x, y, nn);
        }
        if i % 8 == 0 {
            c10_sum(c);
        }
    }
}
