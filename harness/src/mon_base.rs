//! C06 (comparisons / sign queries), C07 (validity predicate, checked construction),
//! C08 (floor/ceil/trunc/round/fract), C09 (integer and float conversions).

use crate::ctx::{guard, hx, Ctx};
use crate::exact::{valid_ref, Dy};
use crate::gen::*;
use crate::mon_arith::{dy, finite, outs, t, w, W};
use num_traits::{FromPrimitive, NumCast, ToPrimitive};
use serde_json::json;
use std::cmp::Ordering;
use std::convert::TryFrom;
use twofloat::verif_hooks::from_raw;
use twofloat::{no_overlap, TwoFloat};

// ------------------------------------------------------------------------------------------
// C07
// ------------------------------------------------------------------------------------------

fn c07_ref(a: f64, b: f64) -> bool {
    a.is_finite() && a + b == a
}

pub fn c07_pair(c: &mut Ctx, a: f64, b: f64) {
    let ins = [hx(a), hx(b)];
    let want = c07_ref(a, b);
    c.note("no_overlap", &ins, a.is_finite() && b.is_finite() && a != 0.0 && b != 0.0);
    match guard(|| no_overlap(a, b)) {
        Ok(got) if got == want => {}
        Ok(got) => c.viol("no_overlap", "predicate", &ins, &[got as u64], format!("no_overlap = {got}, Definition 1.4 (a finite && a+b==a) = {want}")),
        Err(m) => c.viol("no_overlap", "panic", &ins, &[], m),
    }
    let want_valid = valid_ref(a, b);
    match guard(|| from_raw(a, b).is_valid()) {
        Ok(got) if got == want_valid => {}
        Ok(got) => c.viol("is_valid", "predicate", &ins, &[got as u64], format!("is_valid = {got}, reference = {want_valid}")),
        Err(m) => c.viol("is_valid", "panic", &ins, &[], m),
    }
    // checked construction
    let same = |x: f64, y: f64| x.to_bits() == y.to_bits();
    match guard(|| TwoFloat::try_from((a, b)).ok().map(|x| (w(x), <(f64, f64)>::from(x), <(f64, f64)>::from(&x), <[f64; 2]>::from(x), <[f64; 2]>::from(&x)))) {
        Ok(None) if !want => {}
        Ok(Some((r, t1, t2, a1, a2))) if want => {
            let ok = same(r.0, a) && same(r.1, b) && same(t1.0, a) && same(t1.1, b) && same(t2.0, a) && same(t2.1, b) && same(a1[0], a) && same(a1[1], b) && same(a2[0], a) && same(a2[1], b);
            if !ok {
                c.viol("try_from_tuple", "roundtrip", &ins, &outs(r), "words not preserved bit-for-bit".into());
            }
        }
        Ok(x) => c.viol("try_from_tuple", "accepts", &ins, &[x.is_some() as u64], format!("try_from((a,b)).is_ok() = {}, expected {want}", x.is_some())),
        Err(m) => c.viol("try_from_tuple", "panic", &ins, &[], m),
    }
    match guard(|| TwoFloat::try_from([a, b]).ok().map(w)) {
        Ok(None) if !want => {}
        Ok(Some(r)) if want => {
            if !(same(r.0, a) && same(r.1, b)) {
                c.viol("try_from_array", "roundtrip", &ins, &outs(r), "words not preserved bit-for-bit".into());
            }
        }
        Ok(x) => c.viol("try_from_array", "accepts", &ins, &[x.is_some() as u64], format!("try_from([a,b]).is_ok() = {}, expected {want}", x.is_some())),
        Err(m) => c.viol("try_from_array", "panic", &ins, &[], m),
    }
}

fn sub_or_norm(neg: bool, e: i64, frac: u64) -> f64 {
    // value with leading bit at 2^e (possibly subnormal), fraction bits below
    if e >= -1022 {
        mk(neg, e, frac)
    } else if e >= -1074 {
        let lead = 1u64 << (e + 1074);
        let v = f64::from_bits(lead | ((frac >> (52 - (e + 1074))) & (lead - 1)));
        if neg {
            -v
        } else {
            v
        }
    } else {
        if neg {
            -0.0
        } else {
            0.0
        }
    }
}

pub fn c07(c: &mut Ctx) {
    // structured, seed-independent sweep (sharded by exponent field)
    let specials = [0.0, -0.0, f64::from_bits(1), -f64::from_bits(1), f64::MIN_POSITIVE, -f64::MIN_POSITIVE, f64::INFINITY, f64::NEG_INFINITY, f64::NAN, f64::MAX, -f64::MAX];
    for be in 0..2048u64 {
        if be % c.nshards != c.shard {
            continue;
        }
        for mc in 0..N_MANT_CLASSES {
            let frac = mant_class(&mut c.rng, mc);
            for neg in [false, true] {
                let a = f64::from_bits(((neg as u64) << 63) | (be << 52) | frac);
                for &b in &specials {
                    c07_pair(c, a, b);
                }
                if be == 0 || be == 2047 {
                    continue;
                }
                let e = be as i64 - 1023;
                for k in -56..=-51i64 {
                    for d in -2..=2i64 {
                        let base = sub_or_norm(false, e + k, 0);
                        let b = step(base, d);
                        c07_pair(c, a, b);
                        c07_pair(c, a, -b);
                    }
                }
            }
        }
        c.count("exponent_fields_swept");
    }
    // thorough tier: every exponent field of a against every exponent field of b (2048 x 2048),
    // 5 x 5 mantissa patterns, all sign combinations
    if c.tier != 0 {
        let pats = [0u64, 1, MANT_MASK, MANT_MASK - 1, 0x8000000000000];
        for bea in 0..2048u64 {
            if bea % c.nshards != c.shard {
                continue;
            }
            for beb in 0..2048u64 {
                for &ma in &pats {
                    for &mb in &pats {
                        for sg in 0..4u64 {
                            let a = f64::from_bits(((sg & 1) << 63) | (bea << 52) | ma);
                            let b = f64::from_bits(((sg >> 1) << 63) | (beb << 52) | mb);
                            c07_pair(c, a, b);
                        }
                    }
                }
            }
        }
        c.extra.insert("exponent_x_exponent_grid_complete".into(), json!(true));
    }
    // random: b within a few units of the exact half-/quarter-ulp threshold of a random a
    let n = c.budget(20_000_000, 2_000_000_000) / 2;
    for i in 0..n {
        let a = if i % 8 == 0 { f64_any(&mut c.rng) } else { f64_finite(&mut c.rng) };
        let b = if a.is_finite() && a != 0.0 {
            let he = ulp_exp(a) - 1;
            match c.rng.below(8) {
                0 => f64_any(&mut c.rng),
                1 => sub_or_norm(c.rng.coin(), he - c.rng.range(0, 120), c.rng.next() & MANT_MASK),
                2 => sub_or_norm(c.rng.coin(), he + c.rng.range(1, 4), c.rng.next() & MANT_MASK),
                _ => {
                    let k = c.rng.range(-2, 1);
                    let base = sub_or_norm(c.rng.coin(), he + k, 0);
                    step(base, c.rng.range(-4, 4))
                }
            }
        } else {
            f64_any(&mut c.rng)
        };
        c07_pair(c, a, b);
        if i < 3 {
            c.sample("no_overlap", || json!({"a": a, "b": b, "no_overlap": no_overlap(a, b)}));
        }
    }
}

// ------------------------------------------------------------------------------------------
// C06
// ------------------------------------------------------------------------------------------

fn has_nan(x: W) -> bool {
    x.0.is_nan() || x.1.is_nan()
}

fn ord_code(o: Option<Ordering>) -> u64 {
    match o {
        None => 0,
        Some(Ordering::Less) => 1,
        Some(Ordering::Equal) => 2,
        Some(Ordering::Greater) => 3,
    }
}

/// All six relations between two TwoFloats, in one order.
fn rels_tt(a: TwoFloat, b: TwoFloat) -> (bool, bool, bool, bool, bool, bool, Option<Ordering>) {
    (a < b, a <= b, a > b, a >= b, a == b, a != b, a.partial_cmp(&b))
}

fn expect_rels(o: Option<Ordering>) -> (bool, bool, bool, bool, bool, bool, Option<Ordering>) {
    match o {
        None => (false, false, false, false, false, true, None),
        Some(Ordering::Less) => (true, true, false, false, false, true, o),
        Some(Ordering::Equal) => (false, true, false, true, true, false, o),
        Some(Ordering::Greater) => (false, false, true, true, false, true, o),
    }
}

pub fn c06_tt(c: &mut Ctx, a: W, b: W) {
    let ins = [hx(a.0), hx(a.1), hx(b.0), hx(b.1)];
    let (va, vb) = (valid_ref(a.0, a.1), valid_ref(b.0, b.1));
    let (ta, tb) = (t(a), t(b));
    c.note("cmp/TF,TF", &ins, va && vb && a.0 != 0.0 && b.0 != 0.0);
    let got = match guard(|| (rels_tt(ta, tb), rels_tt(tb, ta), (), ta.eq(&tb), tb.eq(&ta))) {
        Ok(g) => g,
        Err(m) => {
            c.viol("cmp/TF,TF", "panic", &ins, &[], m);
            return;
        }
    };
    let (ab, ba, _, eq_ab, eq_ba) = got;
    if hx(a.0) == hx(b.0) && hx(a.1) == hx(b.1) {
        // the same object on both sides
        #[allow(clippy::eq_op)]
        let selfcmp = guard(|| (ta == ta, ta != ta, ta.partial_cmp(&ta), ta <= ta, ta < ta));
        match selfcmp {
            Err(m) => c.viol("cmp/self", "panic", &ins, &[], m),
            Ok((e, ne, pc, le, lt)) => {
                let want_nan = has_nan(a);
                let ok = if want_nan { !e && ne && pc.is_none() && !le && !lt } else { e == eq_ab && ne != eq_ab && pc == ab.6 && !lt };
                if !ok {
                    c.viol("cmp/self", "same_object_differs", &ins, &[e as u64, ord_code(pc)], "comparing a value with itself (same object) differs from comparing it with a bit-identical copy".into());
                }
            }
        }
    }
    // symmetry and consistency on the whole enlarged domain
    if eq_ab != eq_ba {
        c.viol("eq/TF,TF", "asymmetric", &ins, &[eq_ab as u64, eq_ba as u64], format!("a == b is {eq_ab} but b == a is {eq_ba}"));
    }
    if eq_ab != (ab.6 == Some(Ordering::Equal)) || eq_ba != (ba.6 == Some(Ordering::Equal)) {
        c.viol("eq/TF,TF", "eq_vs_partial_cmp", &ins, &[eq_ab as u64, ord_code(ab.6), eq_ba as u64, ord_code(ba.6)], "== disagrees with partial_cmp == Some(Equal)".into());
    }
    if va != vb {
        // min/max skip the invalid operand (whatever makes it invalid: overlap, infinity, NaN word)
        let good = if va { a } else { b };
        for (nm, is_min, route) in [("min", true, 0u8), ("max", false, 0), ("min", true, 1), ("max", false, 1), ("min", true, 2), ("max", false, 2)] {
            match guard(|| {
                w(match (is_min, route) {
                    (true, 0) => ta.min(tb),
                    (false, 0) => ta.max(tb),
                    (true, 1) => <TwoFloat as num_traits::Float>::min(ta, tb),
                    (false, 1) => <TwoFloat as num_traits::Float>::max(ta, tb),
                    (true, _) => <TwoFloat as num_traits::float::FloatCore>::min(ta, tb),
                    (false, _) => <TwoFloat as num_traits::float::FloatCore>::max(ta, tb),
                })
            }) {
                Err(m) => c.viol(nm, "panic", &ins, &[], m),
                Ok(r) => {
                    if !(hx(r.0) == hx(good.0) && hx(r.1) == hx(good.1)) {
                        c.viol(nm, "invalid_not_skipped", &ins, &outs(r), format!("an invalid operand must be skipped (route {route}: 0 inherent, 1 Float, 2 FloatCore)"));
                    }
                }
            }
        }
        c.count("valid_vs_invalid_pairs");
    }
    if has_nan(a) || has_nan(b) {
        c.count("nan_operand_pairs");
        let e = expect_rels(None);
        if ab != e || ba != e {
            c.viol("cmp/TF,TF", "nan_not_unordered", &ins, &[ord_code(ab.6), ab.4 as u64, ord_code(ba.6), ba.4 as u64], "operand with a NaN word must be unequal and unordered in both orders".into());
        }
        return;
    }
    if va && vb {
        let o = dy(a).cmp(&dy(b));
        let e1 = expect_rels(Some(o));
        let e2 = expect_rels(Some(o.reverse()));
        if ab != e1 {
            c.viol("cmp/TF,TF", "wrong_order", &ins, &[ord_code(ab.6), ab.0 as u64, ab.1 as u64, ab.2 as u64, ab.3 as u64, ab.4 as u64], format!("exact comparison of hi+lo is {o:?}"));
        }
        if ba != e2 {
            c.viol("cmp/TF,TF", "wrong_order_rev", &ins, &[ord_code(ba.6)], format!("exact comparison (reversed) is {:?}", o.reverse()));
        }
        // min / max
        for (nm, is_min, route) in [("min", true, 0u8), ("max", false, 0), ("min", true, 1), ("max", false, 1), ("min", true, 2), ("max", false, 2)] {
            let r = guard(|| {
                w(match (is_min, route) {
                    (true, 0) => ta.min(tb),
                    (false, 0) => ta.max(tb),
                    (true, 1) => <TwoFloat as num_traits::Float>::min(ta, tb),
                    (false, 1) => <TwoFloat as num_traits::Float>::max(ta, tb),
                    (true, _) => <TwoFloat as num_traits::float::FloatCore>::min(ta, tb),
                    (false, _) => <TwoFloat as num_traits::float::FloatCore>::max(ta, tb),
                })
            });
            match r {
                Err(m) => c.viol(nm, "panic", &ins, &[], m),
                Ok(r) => {
                    let want_a = if is_min { o != Ordering::Greater } else { o != Ordering::Less };
                    let want_b = if is_min { o != Ordering::Less } else { o != Ordering::Greater };
                    let is_a = hx(r.0) == hx(a.0) && hx(r.1) == hx(a.1);
                    let is_b = hx(r.0) == hx(b.0) && hx(r.1) == hx(b.1);
                    if !((is_a && want_a) || (is_b && want_b)) {
                        c.viol(nm, "wrong_operand", &ins, &outs(r), format!("result must be the operand with the {} exact value", if is_min { "smaller" } else { "larger" }));
                    }
                }
            }
        }
    }
}

fn cmp_f64(v: &Dy, f: f64) -> Option<Ordering> {
    if f.is_nan() {
        None
    } else if f == f64::INFINITY {
        Some(Ordering::Less)
    } else if f == f64::NEG_INFINITY {
        Some(Ordering::Greater)
    } else {
        Some(v.cmp(&Dy::from_f64(f)))
    }
}

pub fn c06_tf(c: &mut Ctx, a: W, f: f64) {
    if !valid_ref(a.0, a.1) {
        return;
    }
    let ins = [hx(a.0), hx(a.1), hx(f)];
    let ta = t(a);
    c.note("cmp/TF,f64", &ins, a.0 != 0.0 && f != 0.0);
    let o = cmp_f64(&dy(a), f);
    let e1 = expect_rels(o);
    let e2 = expect_rels(o.map(|x| x.reverse()));
    match guard(|| ((ta < f, ta <= f, ta > f, ta >= f, ta == f, ta != f, ta.partial_cmp(&f)), (f < ta, f <= ta, f > ta, f >= ta, f == ta, f != ta, f.partial_cmp(&ta)))) {
        Err(m) => c.viol("cmp/TF,f64", "panic", &ins, &[], m),
        Ok((g1, g2)) => {
            if g1 != e1 {
                c.viol("cmp/TF,f64", "wrong_order", &ins, &[ord_code(g1.6), g1.4 as u64], format!("exact comparison is {o:?}"));
            }
            if g2 != e2 {
                c.viol("cmp/f64,TF", "wrong_order", &ins, &[ord_code(g2.6), g2.4 as u64], format!("exact comparison (f64 on the left) is {:?}", o.map(|x| x.reverse())));
            }
        }
    }
}

/// Sign queries on an infinity reachable through the API: the extended-real value of (+-inf, _) is +-inf,
/// so abs must give +inf and the sign tests must follow the high word.
pub fn c06_sign_inf(c: &mut Ctx, a: W) {
    if !a.0.is_infinite() {
        return;
    }
    let ins = [hx(a.0), hx(a.1)];
    let ta = t(a);
    c.count("sign_of_infinity");
    for (via, res) in [("inherent", guard(|| w(ta.abs()))), ("Float", guard(|| w(<TwoFloat as num_traits::Float>::abs(ta)))), ("Signed", guard(|| w(<TwoFloat as num_traits::Signed>::abs(&ta))))] {
        match res {
            Err(m) => c.viol("abs", "panic", &ins, &[], m),
            Ok(r) => {
                if r.0 != f64::INFINITY {
                    c.viol("abs", "infinity", &ins, &outs(r), format!("{via}: abs of an infinity must be +infinity"));
                }
            }
        }
    }
    match guard(|| (ta.is_sign_negative(), ta.is_sign_positive())) {
        Err(m) => c.viol("sign", "panic", &ins, &[], m),
        Ok((isn, isp)) => {
            if isn != (a.0 < 0.0) || isp == (a.0 < 0.0) {
                c.viol("is_sign", "infinity", &ins, &[isn as u64, isp as u64], "sign query on an infinity must follow its sign".into());
            }
        }
    }
}

pub fn c06_sign(c: &mut Ctx, a: W, s: W) {
    if !valid_ref(a.0, a.1) {
        return;
    }
    let ins = [hx(a.0), hx(a.1), hx(s.0), hx(s.1)];
    let ta = t(a);
    let va = dy(a);
    c.note("sign", &ins, a.0 != 0.0);
    // abs: exact value |v|
    match guard(|| w(ta.abs())) {
        Err(m) => c.viol("abs", "panic", &ins, &[], m),
        Ok(r) => {
            if !finite(r) || !dy(r).eq(&va.abs()) {
                c.viol("abs", "exact", &ins, &outs(r), "abs(x) must have exact value |x|".into());
            }
        }
    }
    if va.is_zero() {
        return;
    }
    let neg = va.sign() < 0;
    match guard(|| (ta.is_sign_negative(), ta.is_sign_positive(), w(ta.signum()))) {
        Err(m) => c.viol("sign", "panic", &ins, &[], m),
        Ok((isn, isp, sg)) => {
            if isn != neg || isp == neg {
                c.viol("is_sign", "wrong", &ins, &[isn as u64, isp as u64], format!("exact value is {}", if neg { "negative" } else { "positive" }));
            }
            let want = if neg { -1.0 } else { 1.0 };
            if !(finite(sg) && dy(sg).eq(&Dy::from_f64(want))) {
                c.viol("signum", "wrong", &ins, &outs(sg), format!("expected {want}"));
            }
        }
    }
    if valid_ref(s.0, s.1) && s.0 != 0.0 {
        let ts = t(s);
        let sneg = dy(s).sign() < 0;
        let want = if sneg { va.abs().neg() } else { va.abs() };
        for (via, res) in [("inherent", guard(|| w(ta.copysign(&ts)))), ("Float", guard(|| w(<TwoFloat as num_traits::Float>::copysign(ta, ts))))] {
            match res {
                Err(m) => c.viol("copysign", "panic", &ins, &[], m),
                Ok(r) => {
                    if !finite(r) || !dy(r).eq(&want) {
                        c.viol("copysign", "wrong", &ins, &outs(r), format!("{via}: copysign(x, s) must be |x| with the sign of s"));
                    }
                }
            }
        }
    }
}

fn c06_boundary_set(r: &mut Rng) -> Vec<W> {
    let mut v: Vec<W> = vec![
        (0.0, 0.0),
        (-0.0, 0.0),
        (0.0, -0.0),
        (-0.0, -0.0),
        (1.0, 0.0),
        (-1.0, 0.0),
        (f64::MAX, pow2(969)),
        (-f64::MAX, -pow2(969)),
        (f64::MIN_POSITIVE, 0.0),
        (f64::from_bits(1), 0.0),
        (-f64::from_bits(1), 0.0),
    ];
    // non-finite values reachable through the API (+ NaN words through the hook)
    let nonfinite: Vec<W> = vec![
        (f64::NAN, f64::NAN),
        (f64::INFINITY, f64::INFINITY),
        (f64::NEG_INFINITY, f64::NEG_INFINITY),
        (f64::INFINITY, 0.0),
        (f64::NEG_INFINITY, 0.0),
        (f64::INFINITY, f64::NAN),
        (f64::NEG_INFINITY, f64::NAN),
        (f64::NAN, 0.0),
        (1.0, f64::NAN),
        (0.0, f64::NAN),
        (f64::NAN, 1.0),
        (-2.5, f64::NAN),
        (f64::INFINITY, f64::NEG_INFINITY),
    ];
    v.extend(nonfinite);
    // neighbours: same hi with several lo; hi +- 1 ulp; values equal by different routes
    for _ in 0..60 {
        let hi = f64_in(r, -300, 300);
        let mut los = vec![0.0, -0.0];
        for _ in 0..3 {
            let (_, l, _) = tf_with_hi(r, hi);
            los.push(l);
            los.push(step(l, 1));
            los.push(step(l, -1));
            los.push(-l);
        }
        for l in los {
            if valid_ref(hi, l) {
                v.push((hi, l));
            }
        }
        let h2 = next_up(hi);
        let (_, l2, _) = tf_with_hi(r, h2);
        v.push((h2, l2));
        v.push((-hi, 0.0));
    }
    v
}

pub fn c06(c: &mut Ctx) {
    // deterministic boundary set, full Cartesian product (sharded)
    let mut r0 = Rng::new(c.seed, 0xC06, 0);
    let set = c06_boundary_set(&mut r0);
    c.extra.insert("boundary_set_size".into(), json!(set.len()));
    let f64s = [0.0, -0.0, 1.0, -1.0, f64::INFINITY, f64::NEG_INFINITY, f64::NAN, f64::MAX, -f64::MAX, f64::from_bits(1)];
    let mut idx = 0u64;
    for &a in &set {
        c06_sign_inf(c, a);
        for &b in &set {
            idx += 1;
            if idx % c.nshards != c.shard {
                continue;
            }
            c06_tt(c, a, b);
        }
        if idx % c.nshards == c.shard {
            for &f in &f64s {
                c06_tf(c, a, f);
            }
            c06_tf(c, a, a.0);
            c06_tf(c, a, next_up(a.0));
            c06_tf(c, a, next_down(a.0));
            c06_sign(c, a, (1.0, 0.0));
            c06_sign(c, a, (-1.0, 0.0));
        }
    }
    let n = c.budget(6_000_000, 300_000_000) / 6;
    for _ in 0..n {
        let a = tf_in_or_zero(&mut c.rng, -1022, 1023);
        let b = match c.rng.below(10) {
            0 => a,
            1 => (a.0, -a.1),
            2 => (a.0, step(a.1, c.rng.range(-2, 2))),
            3 => {
                let (h, l, _) = tf_with_hi(&mut c.rng, a.0);
                (h, l)
            }
            4 => (-a.0, -a.1),
            5 => {
                let h = step(a.0, c.rng.range(-1, 1));
                let (h, l, _) = tf_with_hi(&mut c.rng, h);
                (h, l)
            }
            6 => set[c.rng.below(set.len() as u64) as usize],
            _ => tf_in_or_zero(&mut c.rng, -1022, 1023),
        };
        let b = if valid_ref(b.0, b.1) || !finite(b) { b } else { (b.0, 0.0) };
        c06_tt(c, a, b);
        let f = match c.rng.below(6) {
            0 => a.0,
            1 => step(a.0, c.rng.range(-1, 1)),
            2 => f64_any(&mut c.rng),
            3 => -a.0,
            _ => f64_finite(&mut c.rng),
        };
        c06_tf(c, a, f);
        c06_sign(c, a, b);
    }
    c.sample("cmp/TF,TF", || json!({"a": [1.0, 1e-20], "b": [1.0, -1e-20], "note": "pairs differing only in the low word are in every run"}));
}

// ------------------------------------------------------------------------------------------
// C08
// ------------------------------------------------------------------------------------------

pub fn c08_one(c: &mut Ctx, a: W) {
    if !valid_ref(a.0, a.1) {
        return;
    }
    let ins = [hx(a.0), hx(a.1)];
    let ta = t(a);
    let v = dy(a);
    let tr = v.trunc();
    let wants: [(&'static str, Dy); 5] = [("floor", v.floor()), ("ceil", v.ceil()), ("trunc", tr.clone()), ("round", v.round_half_away()), ("fract", v.sub(&tr))];
    let nt = !v.is_integer();
    for (i, (op, want)) in wants.iter().enumerate() {
        c.note(op, &ins, nt);
        let r1 = guard(|| {
            w(match i {
                0 => ta.floor(),
                1 => ta.ceil(),
                2 => ta.trunc(),
                3 => ta.round(),
                _ => ta.fract(),
            })
        });
        let r2 = guard(|| {
            w(match i {
                0 => num_traits::Float::floor(ta),
                1 => num_traits::Float::ceil(ta),
                2 => num_traits::Float::trunc(ta),
                3 => num_traits::Float::round(ta),
                _ => num_traits::Float::fract(ta),
            })
        });
        let r3 = guard(|| {
            w(match i {
                0 => num_traits::float::FloatCore::floor(ta),
                1 => num_traits::float::FloatCore::ceil(ta),
                2 => num_traits::float::FloatCore::trunc(ta),
                3 => num_traits::float::FloatCore::round(ta),
                _ => num_traits::float::FloatCore::fract(ta),
            })
        });
        for (via, r) in [("inherent", r1), ("Float", r2), ("FloatCore", r3)] {
            match r {
                Err(m) => c.viol(op, "panic", &ins, &[], format!("{via}: {m}")),
                Ok(r) => {
                    if !valid_ref(r.0, r.1) {
                        c.viol(op, "invalid", &ins, &outs(r), format!("{via}: result is not a valid TwoFloat"));
                    } else if !dy(r).eq(want) {
                        c.viol(op, "inexact", &ins, &outs(r), format!("{via}: exact value differs from the mathematical result"));
                    }
                    if via == "inherent" {
                        c.sample(op, || json!({"x": [a.0, a.1], "r": [r.0, r.1]}));
                    }
                }
            }
        }
    }
}

pub fn c08(c: &mut Ctx) {
    // structured case table: hi class x magnitude band x lo class x signs
    let n_cell = c.budget(40, 2000).max(1);
    let bands: [(i64, i64); 6] = [(-60, -1), (0, 51), (52, 52), (53, 105), (106, 200), (-1, 0)];
    let mut cell = 0u64;
    for hic in 0..5u64 {
        for (bi, &(e0, e1)) in bands.iter().enumerate() {
            for loc in 0..7u64 {
                for sg in 0..4u64 {
                    cell += 1;
                    for _ in 0..n_cell {
                        let e = c.rng.range(e0, e1);
                        // high word
                        let m = c.rng.next() & MANT_MASK;
                        let keep = |bits_below_point: i64| -> u64 {
                            // keep only mantissa bits down to 2^-bits_below_point
                            let drop = (52 - e - bits_below_point).clamp(0, 52);
                            if drop >= 52 {
                                0
                            } else {
                                m & !((1u64 << drop) - 1)
                            }
                        };
                        let frac = match hic {
                            0 => keep(0),                                              // integer
                            1 => keep(1) | if e <= 51 && e >= -1 { 1u64 << (51 - e).clamp(0, 51) } else { 0 }, // half-integer
                            2 => keep(2) | if e <= 50 && e >= -2 { 1u64 << (50 - e).clamp(0, 51) } else { 0 }, // quarter
                            3 => m,                                                    // generic
                            _ => 0,                                                    // power of two
                        };
                        let hi = mk(sg & 1 == 1, e, frac);
                        let he = ulp_exp(hi) - 1;
                        let lmag = match loc {
                            0 => 0.0,
                            1 => {
                                // integer low word
                                let k = c.rng.range(0, 40);
                                if he - k >= 0 {
                                    let v = mk(false, he - k, c.rng.next() & MANT_MASK);
                                    v - (v % 1.0)
                                } else {
                                    0.0
                                }
                            }
                            2 => {
                                // half-integer low word: integer + 0.5
                                if he >= 1 {
                                    let v = mk(false, c.rng.range(0, he - 1).max(0), c.rng.next() & MANT_MASK);
                                    (v - (v % 1.0)) + 0.5
                                } else if he >= -1 {
                                    0.5
                                } else {
                                    0.0
                                }
                            }
                            3 => 0.5,
                            4 => mk(false, he - c.rng.range(1, 30), c.rng.next() & MANT_MASK), // other fraction / generic
                            5 => pow2(c.rng.range(-1074, -900)),                               // tiny
                            _ => pow2(he),                                                     // exactly half an ulp
                        };
                        let lo = if sg & 2 == 2 { -lmag } else { lmag };
                        if valid_ref(hi, lo) {
                            c08_one(c, (hi, lo));
                            c.cell(format!("hi{hic}/band{bi}/lo{loc}/sg{sg}"));
                        } else if valid_ref(hi, lo * 0.5) {
                            c08_one(c, (hi, lo * 0.5));
                        }
                    }
                }
            }
        }
    }
    c.extra.insert("case_table_cells".into(), json!(cell));
    let n = c.budget(10_000_000, 500_000_000) / 5;
    for i in 0..n {
        let a = match i % 4 {
            0 => tf_in_or_zero(&mut c.rng, -60, 200),
            1 => tf_in(&mut c.rng, 40, 120),
            2 => tf_in(&mut c.rng, -5, 60),
            _ => tf_in(&mut c.rng, -1022, 1000),
        };
        c08_one(c, a);
    }
}

// ------------------------------------------------------------------------------------------
// C09
// ------------------------------------------------------------------------------------------

pub trait IntT: Copy + PartialEq + std::fmt::Debug + 'static {
    const NAME: &'static str;
    const BITS: u32;
    fn to_dy(self) -> Dy;
    fn from_dy(d: &Dy) -> Option<Self>;
    fn word(self) -> [u64; 2];
    fn conv(self) -> TwoFloat;
    fn conv_fp(self) -> Option<TwoFloat>;
    fn conv_nc(self) -> Option<TwoFloat>;
    fn back(x: TwoFloat) -> Option<Self>;
    fn back_ref(x: &TwoFloat) -> Option<Self>;
    fn back_tp(x: &TwoFloat) -> Option<Self>;
    fn back_nc(x: TwoFloat) -> Option<Self>;
    fn from_u128_wrapping(x: u128) -> Self;
    fn min_v() -> Self;
    fn max_v() -> Self;
}

macro_rules! impl_int {
    ($T:ty, $name:literal, $signed:expr, $fp:ident, $tp:ident) => {
        impl IntT for $T {
            const NAME: &'static str = $name;
            const BITS: u32 = <$T>::BITS;
            fn to_dy(self) -> Dy {
                if $signed {
                    Dy::from_i128(self as i128)
                } else {
                    Dy::from_u128(self as u128)
                }
            }
            fn from_dy(d: &Dy) -> Option<Self> {
                if $signed {
                    d.to_i128().and_then(|x| <$T>::try_from(x).ok())
                } else {
                    d.to_u128().and_then(|x| <$T>::try_from(x).ok())
                }
            }
            fn word(self) -> [u64; 2] {
                let x = self as u128;
                [x as u64, (x >> 64) as u64]
            }
            fn conv(self) -> TwoFloat {
                <TwoFloat as From<$T>>::from(self)
            }
            fn conv_fp(self) -> Option<TwoFloat> {
                <TwoFloat as FromPrimitive>::$fp(self)
            }
            fn conv_nc(self) -> Option<TwoFloat> {
                <TwoFloat as NumCast>::from(self)
            }
            fn back(x: TwoFloat) -> Option<Self> {
                <$T>::try_from(x).ok()
            }
            fn back_ref(x: &TwoFloat) -> Option<Self> {
                <$T>::try_from(x).ok()
            }
            fn back_tp(x: &TwoFloat) -> Option<Self> {
                ToPrimitive::$tp(x)
            }
            fn back_nc(x: TwoFloat) -> Option<Self> {
                <$T as NumCast>::from(x)
            }
            fn from_u128_wrapping(x: u128) -> Self {
                x as $T
            }
            fn min_v() -> Self {
                <$T>::MIN
            }
            fn max_v() -> Self {
                <$T>::MAX
            }
        }
    };
}
impl_int!(i8, "i8", true, from_i8, to_i8);
impl_int!(i16, "i16", true, from_i16, to_i16);
impl_int!(i32, "i32", true, from_i32, to_i32);
impl_int!(i64, "i64", true, from_i64, to_i64);
impl_int!(i128, "i128", true, from_i128, to_i128);
impl_int!(u8, "u8", false, from_u8, to_u8);
impl_int!(u16, "u16", false, from_u16, to_u16);
impl_int!(u32, "u32", false, from_u32, to_u32);
impl_int!(u64, "u64", false, from_u64, to_u64);
impl_int!(u128, "u128", false, from_u128, to_u128);

fn leak_name(a: &str, b: &str) -> &'static str {
    // op names are a small fixed set; intern them
    use std::collections::HashMap;
    use std::sync::Mutex;
    static M: Mutex<Option<HashMap<String, &'static str>>> = Mutex::new(None);
    let mut g = M.lock().unwrap();
    let m = g.get_or_insert_with(HashMap::new);
    let k = format!("{a}{b}");
    if let Some(v) = m.get(&k) {
        return v;
    }
    let s: &'static str = Box::leak(k.clone().into_boxed_str());
    m.insert(k, s);
    s
}

/// TwoFloat::from(n) and the FromPrimitive / NumCast routes, plus the round trip.
pub fn c09_from<T: IntT>(c: &mut Ctx, n: T) {
    let op = leak_name("from/", T::NAME);
    let ins = n.word();
    let dn = n.to_dy();
    let sig = if dn.is_zero() { 0 } else { dn.m.bits() - dn.m.trailing_zeros() };
    let must_be_exact = T::BITS <= 64 || sig <= 106;
    c.note(op, &ins, !dn.is_zero());
    let r = match guard(|| w(n.conv())) {
        Err(m) => {
            c.viol(op, "panic", &ins, &[], m);
            return;
        }
        Ok(r) => r,
    };
    let mut exact = false;
    if !valid_ref(r.0, r.1) {
        c.viol(op, "invalid", &ins, &outs(r), "TwoFloat::from(n) is not a valid (normalised) TwoFloat".into());
    } else {
        let rv = dy(r);
        exact = rv.eq(&dn);
        if must_be_exact && !exact {
            c.viol(op, "inexact", &ins, &outs(r), format!("value must equal n exactly ({} significant bits)", sig));
        } else if !exact {
            // |r - n| * 2^106 <= |n|
            if !crate::exact::rel_le(&rv, &dn, 1, 106) {
                c.viol(op, "accuracy", &ins, &outs(r), "error exceeds 2^-106*|n|".into());
            }
            c.count("inexact_128bit_conversions");
        }
    }
    c.sample(op, || json!({"n": format!("{:?}", n), "hi": r.0, "lo": r.1}));
    // alternative routes must agree with From
    let same = |x: W| hx(x.0) == hx(r.0) && hx(x.1) == hx(r.1);
    match guard(|| n.conv_fp().map(w)) {
        Ok(Some(x)) if same(x) => {}
        Ok(x) => c.viol(op, "from_primitive_differs", &ins, &x.map(|x| outs(x).to_vec()).unwrap_or_default(), "FromPrimitive route differs from From".into()),
        Err(m) => c.viol(op, "panic", &ins, &[], format!("FromPrimitive: {m}")),
    }
    match guard(|| n.conv_nc().map(w)) {
        Ok(Some(x)) if same(x) || (finite(x) && finite(r) && dy(x).eq(&dy(r)) && valid_ref(x.0, x.1)) => {}
        Ok(x) => c.viol(op, "numcast_differs", &ins, &x.map(|x| outs(x).to_vec()).unwrap_or_default(), "NumCast::from route differs from From".into()),
        Err(m) => c.viol(op, "panic", &ins, &[], format!("NumCast: {m}")),
    }
    // round trip when exactly representable
    if exact {
        match guard(|| (T::back(t(r)), T::back_ref(&t(r)), T::back_tp(&t(r)))) {
            Ok((a, b, cc)) if a == Some(n) && b == Some(n) && cc == Some(n) => {}
            Ok((a, b, cc)) => c.viol(op, "roundtrip", &ins, &outs(r), format!("try_from(from(n)) = {a:?}/{b:?}/{cc:?}, expected Ok({n:?})")),
            Err(m) => c.viol(op, "panic", &ins, &[], format!("roundtrip: {m}")),
        }
    }
}

/// T::try_from(x) (value, reference, ToPrimitive) against trunc of the exact value.
pub fn c09_back<T: IntT>(c: &mut Ctx, x: W) {
    let op = leak_name("try_from/", T::NAME);
    let ins = [hx(x.0), hx(x.1)];
    let want: Option<T> = if valid_ref(x.0, x.1) { T::from_dy(&dy(x).trunc()) } else if finite(x) { return } else { None };
    c.note(op, &ins, finite(x) && x.0 != 0.0);
    let tx = t(x);
    match guard(|| (T::back(tx), T::back_ref(&tx), T::back_tp(&tx), T::back_nc(tx))) {
        Ok((a, b, cc, d)) if a == want && b == want && cc == want && d == want => {}
        Ok((a, b, cc, d)) => c.viol(op, "wrong", &ins, &[], format!("got {a:?}/{b:?}/{cc:?}/{d:?} (value/ref/ToPrimitive/NumCast), expected {want:?} = trunc(hi+lo) range-checked")),
        Err(m) => c.viol(op, "panic", &ins, &[], m),
    }
    if want.is_some() {
        c.count("in_range_conversions");
    } else {
        c.count("rejected_conversions");
    }
}

fn c09_back_all(c: &mut Ctx, x: W) {
    c09_back::<i8>(c, x);
    c09_back::<u8>(c, x);
    c09_back::<i16>(c, x);
    c09_back::<u16>(c, x);
    c09_back::<i32>(c, x);
    c09_back::<u32>(c, x);
    c09_back::<i64>(c, x);
    c09_back::<u64>(c, x);
    c09_back::<i128>(c, x);
    c09_back::<u128>(c, x);
    // isize/usize and f64 routes
    let tx = t(x);
    let ins = [hx(x.0), hx(x.1)];
    match guard(|| (tx.to_isize(), tx.to_i64(), tx.to_usize(), tx.to_u64(), ToPrimitive::to_f64(&tx), <f64 as From<TwoFloat>>::from(tx), <f64 as From<&TwoFloat>>::from(&tx), <f32 as From<TwoFloat>>::from(tx), <f32 as From<&TwoFloat>>::from(&tx))) {
        Err(m) => c.viol("to_primitive", "panic", &ins, &[], m),
        Ok((a, b, cc, d, e, f1, f2, g1, g2)) => {
            if a.map(|v| v as i64) != b || cc.map(|v| v as u64) != d {
                c.viol("to_primitive", "isize_usize", &ins, &[], "to_isize/to_usize differ from the 64-bit forms".into());
            }
            let same = |p: f64, q: f64| p.to_bits() == q.to_bits() || (p.is_nan() && q.is_nan());
            if !(e.map(|v| same(v, x.0)).unwrap_or(false) && same(f1, x.0) && same(f2, x.0)) {
                c.viol("to_f64", "not_hi", &ins, &[hx(f1)], "f64::from(x)/to_f64 must be the high word".into());
            }
            let want32 = x.0 as f32;
            let same32 = |p: f32| p.to_bits() == want32.to_bits() || (p.is_nan() && want32.is_nan());
            if !(same32(g1) && same32(g2)) {
                c.viol("to_f32", "not_hi_as_f32", &ins, &[g1.to_bits() as u64], "f32::from(x) must be the high word rounded to f32".into());
            }
        }
    }
}

fn c09_boundaries<T: IntT>(c: &mut Ctx, tier: u8) {
    // x within a few low-word ulps of T::MIN, T::MAX, 0, -1 and the neighbours of the range ends
    let span = if tier == 0 { 3i64 } else { 40 };
    let centers: Vec<Dy> = vec![T::min_v().to_dy(), T::max_v().to_dy(), Dy::zero(), Dy::from_i64(-1), Dy::from_i64(1), T::max_v().to_dy().add(&Dy::from_i64(1)), T::min_v().to_dy().sub(&Dy::from_i64(1))];
    for ctr in centers {
        for d in -span..=span {
            let base = ctr.add(&Dy::from_i64(d));
            // represent base as a TwoFloat (exact for <= 106 bits): hi = RN(base), lo = RN(base - hi)
            let hi = base.to_f64_rn();
            let lo = base.sub(&Dy::from_f64(hi)).to_f64_rn();
            for f in [0.0, 0.5, -0.5, 0.25, -0.25, 1e-300, -1e-300, 0.999999, -0.999999] {
                // add a fraction to whichever word can hold it
                let cand = w(t((hi, lo)) + f);
                for x in [cand, (cand.0, step(cand.1, 1)), (cand.0, step(cand.1, -1))] {
                    if valid_ref(x.0, x.1) {
                        c09_back::<T>(c, x);
                    }
                }
            }
        }
    }
    for x in [(f64::NAN, f64::NAN), (f64::INFINITY, f64::INFINITY), (f64::NEG_INFINITY, f64::NEG_INFINITY), (f64::INFINITY, 0.0), (f64::NEG_INFINITY, 0.0), (f64::INFINITY, f64::NAN), (f64::NAN, 0.0)] {
        c09_back::<T>(c, x);
    }
}

fn wide_values(r: &mut Rng, bits: u32) -> u128 {
    // boundary-dense / structured 128-bit patterns
    let full: u128 = ((r.next() as u128) << 64) | r.next() as u128;
    let len = 1 + r.below(bits as u64) as u32;
    let x = if len >= 128 { full } else { full & ((1u128 << len) - 1) | (1u128 << (len - 1)) };
    match r.below(8) {
        0 => x,
        1 => {
            // f64-representable top part +- (half ulp - 0,1,2): the tie-next-to-odd generator
            if len > 56 {
                let sh = len - 53;
                let top = (x >> sh) << sh;
                let half = 1u128 << (sh - 1);
                let d = r.below(3) as u128;
                if r.coin() {
                    top + half - d
                } else {
                    top + half + d
                }
            } else {
                x
            }
        }
        2 => {
            // at most 106 significant bits with trailing zeros
            if len > 106 {
                let sh = len - 106;
                (x >> sh) << sh
            } else {
                x
            }
        }
        3 => {
            // 107..110 significant bits
            if len > 110 {
                let sh = len - 107 - r.below(3) as u32;
                ((x >> sh) | 1) << sh
            } else {
                x
            }
        }
        4 => (1u128 << (len - 1)).wrapping_add(r.below(5) as u128).wrapping_sub(2),
        5 => {
            if bits >= 128 {
                u128::MAX - (r.next() >> r.below(64)) as u128
            } else {
                ((1u128 << bits) - 1) - ((r.next() >> r.below(64)) as u128 & ((1u128 << bits) - 1) >> 1)
            }
        }
        6 => {
            // low and high chunk only (large gap between words)
            let lowbits = r.below(53) as u32;
            (1u128 << (len - 1)) | (full & ((1u128 << lowbits) - 1))
        }
        _ => x,
    }
}

pub fn c09(c: &mut Ctx) {
    // exhaustive for 8- and 16-bit types (sharded)
    for v in 0..=u16::MAX as u32 {
        if (v as u64) % c.nshards != c.shard {
            continue;
        }
        c09_from::<u16>(c, v as u16);
        c09_from::<i16>(c, v as u16 as i16);
        if v < 256 {
            c09_from::<u8>(c, v as u8);
            c09_from::<i8>(c, v as u8 as i8);
        }
        // try_from on every integer in [MIN-2, MAX+2] combined with low words {0, +-tiny, +-1/2}
        let iv = v as i64 - 32770;
        for lo in [0.0, 1e-30, -1e-30, 0.5, -0.5] {
            let x = w(t((iv as f64, 0.0)) + lo);
            if valid_ref(x.0, x.1) {
                c09_back::<i16>(c, x);
                c09_back::<i8>(c, x);
                c09_back::<u8>(c, x);
                let y = w(t(((iv + 32768) as f64, 0.0)) + lo);
                c09_back::<u16>(c, y);
            }
        }
    }
    c.extra.insert("exhaustive_8_16_bit_from".into(), json!(true));
    if c.shard == 0 {
        let tier = c.tier;
        c09_boundaries::<i8>(c, tier);
        c09_boundaries::<u8>(c, tier);
        c09_boundaries::<i16>(c, tier);
        c09_boundaries::<u16>(c, tier);
    }
    if c.shard == 1 % c.nshards {
        let tier = c.tier;
        c09_boundaries::<i32>(c, tier);
        c09_boundaries::<u32>(c, tier);
        c09_boundaries::<i64>(c, tier);
        c09_boundaries::<u64>(c, tier);
        c09_boundaries::<i128>(c, tier);
        c09_boundaries::<u128>(c, tier);
    }
    // wide types: all values within 64 of the landmarks
    if c.shard == 2 % c.nshards {
        let marks: [u128; 9] = [0, 1 << 53, 1 << 63, 1 << 64, 1 << 106, 1 << 127, u64::MAX as u128, u128::MAX, (1 << 31)];
        for m in marks {
            for d in 0..=64u128 {
                for v in [m.wrapping_add(d), m.wrapping_sub(d)] {
                    c09_from::<u128>(c, v);
                    c09_from::<i128>(c, v as i128);
                    c09_from::<i128>(c, (v as i128).wrapping_neg());
                    c09_from::<u64>(c, v as u64);
                    c09_from::<i64>(c, v as i64);
                    c09_from::<i64>(c, (v as i64).wrapping_neg());
                    c09_from::<u32>(c, v as u32);
                    c09_from::<i32>(c, v as i32);
                }
            }
        }
        for v in [i128::MIN, i128::MAX, i128::MIN + 1] {
            c09_from::<i128>(c, v);
        }
        for v in [i64::MIN, i64::MAX, i64::MIN + 1] {
            c09_from::<i64>(c, v);
        }
        for v in [i32::MIN, i32::MAX] {
            c09_from::<i32>(c, v);
        }
    }
    // thorough tier: all 2^32 values of i32 and u32 (From is exact with a zero low word, try_from round-trips)
    if c.tier != 0 {
        let mut bad = 0u64;
        let chunk = 1u64 << 16;
        for hi16 in 0..(1u64 << 16) {
            if hi16 % c.nshards != c.shard {
                continue;
            }
            let r = guard(|| {
                let mut bad: Vec<u32> = Vec::new();
                for lo16 in 0..chunk {
                    let v = ((hi16 << 16) | lo16) as u32;
                    let a = <TwoFloat as From<u32>>::from(v);
                    let b = <TwoFloat as From<i32>>::from(v as i32);
                    let ok = a.hi() == v as f64 && a.lo() == 0.0 && b.hi() == (v as i32) as f64 && b.lo() == 0.0 && u32::try_from(a).ok() == Some(v) && i32::try_from(b).ok() == Some(v as i32) && i32::try_from(a).ok() == i32::try_from(v).ok() && u32::try_from(b).ok() == u32::try_from(v as i32).ok();
                    if !ok && bad.len() < 4 {
                        bad.push(v);
                    }
                }
                bad
            });
            c.evals += 2 * chunk;
            match r {
                Ok(v) => {
                    for x in v {
                        bad += 1;
                        c.viol("from/u32", "exhaustive32", &[x as u64, 0], &[], format!("exhaustive 32-bit sweep: From/try_from wrong for bit pattern {x:#x} (as u32 or i32)"));
                    }
                }
                Err(m) => c.viol("from/u32", "panic", &[hi16 << 16, 0], &[], m),
            }
        }
        let _ = bad;
        c.extra.insert("exhaustive_32_bit_from_and_roundtrip".into(), json!(true));
    }
    let n = c.budget(8_000_000, 300_000_000) / 16;
    for i in 0..n {
        let v = wide_values(&mut c.rng, 128);
        c09_from::<u128>(c, v);
        let sg = c.rng.coin();
        c09_from::<i128>(c, if sg { v as i128 } else { (v as i128).wrapping_neg() });
        let v64 = wide_values(&mut c.rng, 64);
        c09_from::<u64>(c, v64 as u64);
        let sg = c.rng.coin();
        c09_from::<i64>(c, if sg { v64 as i64 } else { (v64 as i64).wrapping_neg() });
        let x32 = c.rng.next();
        c09_from::<u32>(c, x32 as u32);
        c09_from::<i32>(c, (x32 >> 32) as i32);
        // TwoFloat arguments
        let x = match i % 6 {
            0 => tf_in_or_zero(&mut c.rng, -10, 130),
            1 => {
                // integer-valued around type boundaries with fractional low word
                let e = pk!(c.rng, [7i64, 8, 15, 16, 31, 32, 63, 64, 127, 128]);
                let h = step(pow2(e), c.rng.range(-2, 2)) * if c.rng.coin() { 1.0 } else { -1.0 };
                let (h, l, _) = tf_with_hi(&mut c.rng, h);
                (h, l)
            }
            2 => tf_in(&mut c.rng, 50, 130),
            3 => {
                let k = (c.rng.next() >> c.rng.below(64)) as f64;
                let f = pk!(c.rng, [0.0, 0.5, -0.5, 1e-20, -1e-20]);
                w(t((if c.rng.coin() { k } else { -k }, 0.0)) + f)
            }
            4 => tf_in(&mut c.rng, -1022, 1023),
            _ => tf_in(&mut c.rng, 0, 64),
        };
        if valid_ref(x.0, x.1) {
            c09_back_all(c, x);
        }
        // f32 rounding boundaries: midpoints between adjacent f32 values, the overflow threshold just
        // above f32::MAX, the f32 subnormal range
        {
            let fb = match c.rng.below(4) {
                0 => f32::MAX,
                1 => f32::from_bits(c.rng.below(1 << 24) as u32 + 1),
                2 => f32::MIN_POSITIVE,
                _ => f32::from_bits((c.rng.next() as u32) & 0x7f7f_ffff),
            };
            let up = if fb == f32::MAX { pow2(128) } else { f32::from_bits(fb.to_bits() + 1) as f64 };
            let mid = 0.5 * (fb as f64) + 0.5 * up;
            let hi = match c.rng.below(4) {
                0 => mid,
                1 => step(mid, c.rng.range(-3, 3)),
                2 => (fb as f64) + (up - fb as f64) * ((c.rng.next() >> 11) as f64 * pow2(-53)),
                _ => step(fb as f64, c.rng.range(-2, 2)),
            };
            let hi = if c.rng.coin() { hi } else { -hi };
            let (h, l, _) = tf_with_hi(&mut c.rng, hi);
            if valid_ref(h, l) {
                c09_back_all(c, (h, l));
                c.count("f32_boundary_cases");
            }
        }
        // NumCast::from for a source type that only knows its integer value (to_f64 left to num_traits' default
        // is fine; here to_f64 is None): must still give the exact conversion of the i128 / u128 value
        {
            struct OnlyInt(i128);
            impl ToPrimitive for OnlyInt {
                fn to_i64(&self) -> Option<i64> {
                    i64::try_from(self.0).ok()
                }
                fn to_u64(&self) -> Option<u64> {
                    u64::try_from(self.0).ok()
                }
                fn to_i128(&self) -> Option<i128> {
                    Some(self.0)
                }
                fn to_u128(&self) -> Option<u128> {
                    u128::try_from(self.0).ok()
                }
                fn to_f64(&self) -> Option<f64> {
                    None
                }
            }
            let v = wide_values(&mut c.rng, 127) as i128 * if c.rng.coin() { 1 } else { -1 };
            let ins = [v as u64, (v >> 64) as u64];
            c.note("numcast/custom", &ins, v != 0);
            match guard(|| (<TwoFloat as NumCast>::from(OnlyInt(v)).map(w), w(<TwoFloat as From<i128>>::from(v)))) {
                Err(m) => c.viol("numcast/custom", "panic", &ins, &[], m),
                Ok((a, b)) => {
                    if !a.map(|a| hx(a.0) == hx(b.0) && hx(a.1) == hx(b.1)).unwrap_or(false) {
                        c.viol("numcast/custom", "differs", &ins, &outs(b), "NumCast::from of a source without an f64 view differs from From<i128> of its value".into());
                    }
                }
            }
        }
        // usize / isize routes (64-bit target): must equal the u64 / i64 conversions
        {
            let v = wide_values(&mut c.rng, 64) as u64;
            let ins = [v, 0];
            c.note("from/usize", &ins, v != 0);
            match guard(|| (<TwoFloat as FromPrimitive>::from_usize(v as usize).map(w), w(<TwoFloat as From<u64>>::from(v)), <TwoFloat as FromPrimitive>::from_isize(v as i64 as isize).map(w), w(<TwoFloat as From<i64>>::from(v as i64)), <TwoFloat as NumCast>::from(v as usize).map(w), <TwoFloat as NumCast>::from(v as i64 as isize).map(w))) {
                Err(m) => c.viol("from/usize", "panic", &ins, &[], m),
                Ok((a, b, cc, d, e, f)) => {
                    let same = |p: Option<W>, q: W| p.map(|p| hx(p.0) == hx(q.0) && hx(p.1) == hx(q.1)).unwrap_or(false);
                    if !same(a, b) || !same(e, b) {
                        c.viol("from/usize", "differs", &ins, &outs(b), "from_usize / NumCast::from(usize) differ from From<u64>".into());
                    }
                    if !same(cc, d) || !same(f, d) {
                        c.viol("from/isize", "differs", &ins, &outs(d), "from_isize / NumCast::from(isize) differ from From<i64>".into());
                    }
                }
            }
        }
        // float conversions
        let f = f64_any(&mut c.rng);
        let ins = [hx(f)];
        c.note("from_float", &ins, f.is_finite() && f != 0.0);
        match guard(|| (w(<TwoFloat as From<f64>>::from(f)), w(<TwoFloat as From<f32>>::from(f as f32)), <TwoFloat as NumCast>::from(f).map(w))) {
            Err(m) => c.viol("from_float", "panic", &ins, &[], m),
            Ok((a, b, nc)) => {
                let same = |p: f64, q: f64| p.to_bits() == q.to_bits() || (p.is_nan() && q.is_nan());
                if !(same(a.0, f) && a.1 == 0.0) {
                    c.viol("from_float", "f64_not_exact", &ins, &outs(a), "From<f64> must be (f, 0)".into());
                }
                if !(same(b.0, (f as f32) as f64) && b.1 == 0.0) {
                    c.viol("from_float", "f32_not_exact", &ins, &outs(b), "From<f32> must be (f as f64, 0)".into());
                }
                if f.is_finite() {
                    for (nm, r) in [("NumCast::from(f64)", nc)] {
                        match r {
                            Some(r) if finite(r) && valid_ref(r.0, r.1) && dy(r).eq(&Dy::from_f64(f)) => {}
                            _ => c.viol("from_float", "route_differs", &ins, &r.map(|x| outs(x).to_vec()).unwrap_or_default(), format!("{nm} differs from From<f64>")),
                        }
                    }
                }
            }
        }
    }
}
