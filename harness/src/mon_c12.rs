//! C12: published constants, associated constants and the angle conversions. Needs no
//! `math_funcs`, so this monitor is also built in the `nomath` configuration.

use crate::ctx::{guard, hx, Ctx};
use crate::emit::Emit;
use crate::exact::{valid_ref, Dy};
use crate::gen::*;
use crate::mon_arith::{dy, finite, outs, t, w, W};
use num_traits::{float::FloatCore, Bounded, FloatConst};
use serde_json::json;
use twofloat::verif_hooks::from_raw;
use twofloat::{consts, TwoFloat};

fn beq(a: W, b: W) -> bool {
    let n = |x: f64| if x.is_nan() { 0x7ff8_0000_0000_0000 } else { x.to_bits() };
    n(a.0) == n(b.0) && n(a.1) == n(b.1)
}
fn tf1(a: W) -> [u64; 2] {
    [hx(a.0), hx(a.1)]
}
fn v2(r: TwoFloat) -> Vec<f64> {
    vec![r.hi(), r.lo()]
}

// ------------------------------------------------------------------------------------------
// C12: constants
// ------------------------------------------------------------------------------------------

pub fn const_list() -> Vec<(&'static str, TwoFloat, TwoFloat)> {
    vec![
        ("E", consts::E, <TwoFloat as FloatConst>::E()),
        ("FRAC_1_PI", consts::FRAC_1_PI, <TwoFloat as FloatConst>::FRAC_1_PI()),
        ("FRAC_2_PI", consts::FRAC_2_PI, <TwoFloat as FloatConst>::FRAC_2_PI()),
        ("FRAC_2_SQRT_PI", consts::FRAC_2_SQRT_PI, <TwoFloat as FloatConst>::FRAC_2_SQRT_PI()),
        ("FRAC_1_SQRT_2", consts::FRAC_1_SQRT_2, <TwoFloat as FloatConst>::FRAC_1_SQRT_2()),
        ("FRAC_PI_2", consts::FRAC_PI_2, <TwoFloat as FloatConst>::FRAC_PI_2()),
        ("FRAC_PI_3", consts::FRAC_PI_3, <TwoFloat as FloatConst>::FRAC_PI_3()),
        ("FRAC_PI_4", consts::FRAC_PI_4, <TwoFloat as FloatConst>::FRAC_PI_4()),
        ("FRAC_PI_6", consts::FRAC_PI_6, <TwoFloat as FloatConst>::FRAC_PI_6()),
        ("FRAC_PI_8", consts::FRAC_PI_8, <TwoFloat as FloatConst>::FRAC_PI_8()),
        ("LN_2", consts::LN_2, <TwoFloat as FloatConst>::LN_2()),
        ("LN_10", consts::LN_10, <TwoFloat as FloatConst>::LN_10()),
        ("LOG2_E", consts::LOG2_E, <TwoFloat as FloatConst>::LOG2_E()),
        ("LOG10_E", consts::LOG10_E, <TwoFloat as FloatConst>::LOG10_E()),
        ("LOG10_2", consts::LOG10_2, <TwoFloat as FloatConst>::LOG10_2()),
        ("LOG2_10", consts::LOG2_10, <TwoFloat as FloatConst>::LOG2_10()),
        ("PI", consts::PI, <TwoFloat as FloatConst>::PI()),
        ("SQRT_2", consts::SQRT_2, <TwoFloat as FloatConst>::SQRT_2()),
        ("TAU", consts::TAU, <TwoFloat as FloatConst>::TAU()),
    ]
}

pub fn c12(c: &mut Ctx) {
    c12_angles(c);
    if c.shard != 0 {
        return;
    }
    // FloatConst accessors are bit-identical to the constants; every constant is valid
    for (name, k, fc) in const_list() {
        let ins = tf1(w(k));
        c.note("const", &ins, true);
        if !beq(w(k), w(fc)) {
            c.viol("const", "floatconst_differs", &ins, &outs(w(fc)), format!("FloatConst::{name}() differs from consts::{name}"));
        }
        if !valid_ref(k.hi(), k.lo()) {
            c.viol("const", "invalid", &ins, &[], format!("consts::{name} is not a valid TwoFloat"));
        }
        c.sample("const", || json!({"name": name, "hi": k.hi(), "lo": k.lo()}));
    }
    // associated constants
    let mx = w(TwoFloat::MAX);
    let mn = w(TwoFloat::MIN);
    let ins = tf1(mx);
    c.note("assoc", &ins, true);
    if !(valid_ref(mx.0, mx.1) && mx.0 == f64::MAX && from_raw(mx.0, mx.1).is_valid()) {
        c.viol("assoc", "max_invalid", &ins, &[], "MAX must be valid with hi == f64::MAX".into());
    }
    // nothing above MAX / below MIN may be accepted by the library's own is_valid / try_from
    for l in [next_up(mx.1), pow2(970), 1e300, f64::MAX, step(mx.1, 5)] {
        for (h, lw) in [(f64::MAX, l), (-f64::MAX, -l)] {
            let acc = from_raw(h, lw).is_valid() || <TwoFloat as core::convert::TryFrom<(f64, f64)>>::try_from((h, lw)).is_ok();
            c.note("assoc", &[hx(h), hx(lw)], true);
            if acc {
                c.viol("assoc", "beyond_max_accepted", &[hx(h), hx(lw)], &[], "a value beyond MAX/MIN is accepted as valid: MAX/MIN are not the extreme valid values".into());
            }
        }
    }
    if valid_ref(mx.0, next_up(mx.1)) {
        c.viol("assoc", "max_not_largest", &ins, &[], "(f64::MAX, next_up(lo)) is still valid: MAX is not the largest valid value".into());
    }
    if !(valid_ref(mn.0, mn.1) && mn.0 == -f64::MAX && from_raw(mn.0, mn.1).is_valid()) {
        c.viol("assoc", "min_invalid", &tf1(mn), &[], "MIN must be valid with hi == f64::MIN".into());
    }
    if valid_ref(mn.0, next_down(mn.1)) {
        c.viol("assoc", "min_not_smallest", &tf1(mn), &[], "(f64::MIN, next_down(lo)) is still valid".into());
    }
    if !beq(mn, (-mx.0, -mx.1)) {
        c.viol("assoc", "min_not_neg_max", &tf1(mn), &[], "MIN != -MAX".into());
    }
    let mp = w(TwoFloat::MIN_POSITIVE);
    c.note("assoc", &tf1(mp), true);
    if !(mp.0 == pow2(-1022) && mp.1 == 0.0) {
        c.viol("assoc", "min_positive", &tf1(mp), &[], "MIN_POSITIVE must be (2^-1022, 0)".into());
    }
    let nan = TwoFloat::NAN;
    c.note("assoc", &tf1(w(nan)), true);
    #[allow(clippy::eq_op)]
    if nan == nan || !(nan != nan) {
        c.viol("assoc", "nan_eq", &tf1(w(nan)), &[], "NAN must compare unequal to itself".into());
    }
    for (nm, x) in [("INFINITY", TwoFloat::INFINITY), ("NEG_INFINITY", TwoFloat::NEG_INFINITY), ("NAN", TwoFloat::NAN)] {
        c.note("assoc", &tf1(w(x)), true);
        if x.is_valid() || valid_ref(x.hi(), x.lo()) {
            c.viol("assoc", "nonfinite_valid", &tf1(w(x)), &[], format!("{nm} must not be valid"));
        }
    }
    if !(TwoFloat::INFINITY.hi() == f64::INFINITY && TwoFloat::NEG_INFINITY.hi() == f64::NEG_INFINITY) {
        c.viol("assoc", "infinity_words", &[], &[], "INFINITY / NEG_INFINITY high words".into());
    }
    // Bounded / FloatCore / Float accessors forward to the associated constants
    let pairs: Vec<(&str, W, W)> = vec![
        ("Bounded::max_value", w(<TwoFloat as Bounded>::max_value()), mx),
        ("Bounded::min_value", w(<TwoFloat as Bounded>::min_value()), mn),
        ("FloatCore::max_value", w(<TwoFloat as FloatCore>::max_value()), mx),
        ("FloatCore::min_value", w(<TwoFloat as FloatCore>::min_value()), mn),
        ("FloatCore::min_positive_value", w(<TwoFloat as FloatCore>::min_positive_value()), mp),
        ("FloatCore::infinity", w(<TwoFloat as FloatCore>::infinity()), w(TwoFloat::INFINITY)),
        ("FloatCore::neg_infinity", w(<TwoFloat as FloatCore>::neg_infinity()), w(TwoFloat::NEG_INFINITY)),
        ("FloatCore::nan", w(<TwoFloat as FloatCore>::nan()), w(TwoFloat::NAN)),
        ("Float::max_value", w(<TwoFloat as num_traits::Float>::max_value()), mx),
        ("Float::min_value", w(<TwoFloat as num_traits::Float>::min_value()), mn),
        ("Float::min_positive_value", w(<TwoFloat as num_traits::Float>::min_positive_value()), mp),
        ("Float::infinity", w(<TwoFloat as num_traits::Float>::infinity()), w(TwoFloat::INFINITY)),
        ("Float::neg_infinity", w(<TwoFloat as num_traits::Float>::neg_infinity()), w(TwoFloat::NEG_INFINITY)),
        ("Float::nan", w(<TwoFloat as num_traits::Float>::nan()), w(TwoFloat::NAN)),
    ];
    for (nm, got, want) in pairs {
        c.note("accessor", &tf1(want), true);
        if !beq(got, want) {
            c.viol("accessor", "differs", &tf1(want), &outs(got), format!("{nm} differs from the associated constant"));
        }
    }
    c.extra.insert("constants_checked".into(), json!(19 + 7));
}

const DEG_HEX: &str = "e52ee0d31e0fbdc30a97537f40d257d73482a25f7cbf02dccda27429b1380d91698b3b01ed3d708b08d6e9f91dceb578c55a12a05922933076f71be0c9b7585a";
const RAD_HEX: &str = "8efa351294e9c8ae0ec5f66e9485c4d900b7aef501b5e6b8e502a9b4c94c8512b6f611678191148710c50c969d5140c960d4a6b49598f1ee71b1370f3cabeadc";

/// 180/pi and pi/180 truncated to 512 bits (relative error < 2^-511; generated with mpmath at 700 bits).
fn angle_consts() -> (Dy, Dy) {
    use crate::exact::BigUint;
    (Dy { neg: false, m: BigUint::from_hex(DEG_HEX), e: -506 }, Dy { neg: false, m: BigUint::from_hex(RAD_HEX), e: -517 })
}

/// err/bound of an angle conversion against x*K with the 512-bit constant (bound 6*2^-106 relative).
fn angle_judge(c: &mut Ctx, op: &'static str, a: W, k: &Dy, to_deg: bool) -> f64 {
    let ins = tf1(a);
    c.note(op, &ins, a.0 != 0.0);
    match guard(|| w(if to_deg { t(a).to_degrees() } else { t(a).to_radians() })) {
        Err(m) => {
            c.viol(op, "panic", &ins, &[], m);
            f64::INFINITY
        }
        Ok(r) => {
            if !finite(r) {
                c.viol(op, "nonfinite", &ins, &outs(r), "non-finite result".into());
                return f64::INFINITY;
            }
            let tv = dy(a).mul(k);
            let ratio = crate::exact::rel_ratio(&dy(r), &tv, 6, 106);
            // the constant is exact to 2^-511: a verdict within 2^-300 of the bound would be undecidable
            if ratio > 1.0 + 1e-9 {
                c.viol(op, "accuracy", &ins, &outs(r), format!("relative error exceeds 6*2^-106: err/bound = {ratio:.6}"));
            }
            c.ratio(op, "6*2^-106 rel", ratio, &ins);
            ratio
        }
    }
}

pub fn c12_angles(c: &mut Ctx) {
    let (deg, rad) = angle_consts();
    let n = c.budget(6_000_000, 600_000_000) / 3;
    let mut pool_d: Vec<(f64, W)> = Vec::new();
    let mut pool_r: Vec<(f64, W)> = Vec::new();
    let offer = |pool: &mut Vec<(f64, W)>, r: f64, a: W| {
        if !r.is_finite() {
            return;
        }
        if pool.len() < 48 {
            pool.push((r, a));
        } else {
            let (mi, mv) = pool.iter().enumerate().fold((0, f64::INFINITY), |acc, (i, e)| if e.0 < acc.1 { (i, e.0) } else { acc });
            if r > mv {
                pool[mi] = (r, a);
            }
        }
    };
    for i in 0..n {
        let a = if i % 16 == 3 || i % 16 == 4 {
            // inverse-seeded: x = to_radians(y) / to_degrees(y) for a single-word y, so that the
            // conversion back lands (almost) on a single f64 - results with a tiny low word
            let y = match c.rng.below(3) {
                0 => (c.rng.range(1, 100_000) as f64 * if c.rng.coin() { 1.0 } else { 0.25 }, 0.0),
                _ => (f64_in(&mut c.rng, -400, 400), 0.0),
            };
            let x = guard(|| w(if i % 16 == 3 { t(y).to_radians() } else { t(y).to_degrees() })).unwrap_or(y);
            let x = (x.0, step(x.1, c.rng.range(-2, 2)));
            if valid_ref(x.0, x.1) && x.0 != 0.0 && exp_of(x.0).abs() < 450 { x } else { y }
        } else if i % 16 == 1 {
            crate::pools::round_integer(&mut c.rng)
        } else if i % 16 == 2 {
            crate::pools::published_const(&mut c.rng)
        } else if i % 3 == 0 {
            // every mantissa region, low word close to +- half an ulp (largest product rounding errors)
            let hi = mk(c.rng.coin(), c.rng.range(-450, 449), c.rng.next() & MANT_MASK);
            let cls = pk!(c.rng, [2u64, 4, 11, 11, 8]);
            let lo = lo_class(&mut c.rng, hi, cls);
            if valid_ref(hi, lo) { (hi, lo) } else { (hi, 0.0) }
        } else {
            tf_in(&mut c.rng, -450, 449)
        };
        let r = angle_judge(c, "to_degrees", a, &deg, true);
        offer(&mut pool_d, r, a);
        let r = angle_judge(c, "to_radians", a, &rad, false);
        offer(&mut pool_r, r, a);
    }
    // hill-climbing: concentrate on the mantissa windows where the error is largest
    for _ in 0..(2 * n) {
        for (pool, k, to_deg, op) in [(&mut pool_d, &deg, true, "to_degrees"), (&mut pool_r, &rad, false, "to_radians")] {
            if pool.is_empty() {
                continue;
            }
            let i = c.rng.below(pool.len() as u64) as usize;
            let (_, a) = pool[i];
            let a2 = match c.rng.below(4) {
                0 => {
                    // same window of the high word, fresh low bits and a fresh near-half-ulp low word
                    let hi = f64::from_bits(a.0.to_bits() ^ (c.rng.next() & ((1u64 << c.rng.below(40)) - 1)));
                    let cls = pk!(c.rng, [2u64, 4, 11]);
                    let lo = lo_class(&mut c.rng, hi, cls);
                    let lo = if (lo < 0.0) == (a.1 < 0.0) { lo } else { -lo };
                    if valid_ref(hi, lo) { (hi, lo) } else { a }
                }
                _ => tf_mutate(&mut c.rng, a, -450, 449),
            };
            let r = angle_judge(c, op, a2, k, to_deg);
            if r.is_finite() {
                let (mi, mv) = pool.iter().enumerate().fold((0, f64::INFINITY), |acc, (i, e)| if e.0 < acc.1 { (i, e.0) } else { acc });
                if r > mv {
                    pool[mi] = (r, a2);
                }
            }
        }
        c.count("stress_steps");
    }
}

pub fn emit_c12(e: &mut Emit) {
    if e.shard == 0 {
        for (name, k, fc) in const_list() {
            e.konst(name, k.hi(), k.lo());
            e.konst(&format!("FloatConst::{name}"), fc.hi(), fc.lo());
        }
        let one = TwoFloat::from(1.0);
        e.konst("to_degrees(1)", one.to_degrees().hi(), one.to_degrees().lo());
        e.konst("to_radians(1)", one.to_radians().hi(), one.to_radians().lo());
    }
    let n = e.budget(300_000, 30_000_000) / 2;
    for _ in 0..n {
        let a = tf_in(&mut e.rng, -450, 450);
        e.ev("to_degrees", &tf1(a), || v2(t(a).to_degrees()));
        e.ev("to_radians", &tf1(a), || v2(t(a).to_radians()));
    }
}

