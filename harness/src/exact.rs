//! Exact arithmetic for the oracles: arbitrary-precision integers and dyadic
//! rationals (m * 2^e). Every finite f64, every TwoFloat value hi+lo and every
//! sum, difference and product of such values is represented exactly.
//! Nothing here uses the crate under test.

use std::cmp::Ordering;

/// Unsigned big integer, little-endian limbs, no trailing zero limbs.
#[derive(Clone, Debug, PartialEq, Eq, Default)]
pub struct BigUint {
    pub l: Vec<u64>,
}

impl BigUint {
    pub fn zero() -> Self {
        BigUint { l: Vec::new() }
    }
    pub fn from_u64(x: u64) -> Self {
        if x == 0 {
            Self::zero()
        } else {
            BigUint { l: vec![x] }
        }
    }
    pub fn from_u128(x: u128) -> Self {
        let mut r = BigUint {
            l: vec![x as u64, (x >> 64) as u64],
        };
        r.trim();
        r
    }
    pub fn from_hex(h: &str) -> Self {
        let mut l: Vec<u64> = Vec::new();
        let b = h.as_bytes();
        let mut end = b.len();
        while end > 0 {
            let start = end.saturating_sub(16);
            l.push(u64::from_str_radix(&h[start..end], 16).expect("hex"));
            end = start;
        }
        let mut r = BigUint { l };
        r.trim();
        r
    }
    fn trim(&mut self) {
        while let Some(&0) = self.l.last() {
            self.l.pop();
        }
    }
    pub fn is_zero(&self) -> bool {
        self.l.is_empty()
    }
    /// Number of significant bits (0 for zero).
    pub fn bits(&self) -> u64 {
        match self.l.last() {
            None => 0,
            Some(&top) => (self.l.len() as u64) * 64 - top.leading_zeros() as u64,
        }
    }
    pub fn bit(&self, i: u64) -> bool {
        let w = (i / 64) as usize;
        w < self.l.len() && (self.l[w] >> (i % 64)) & 1 == 1
    }
    pub fn trailing_zeros(&self) -> u64 {
        let mut n = 0;
        for &w in &self.l {
            if w == 0 {
                n += 64;
            } else {
                return n + w.trailing_zeros() as u64;
            }
        }
        n
    }
    /// True when any of the bits below position `i` is set.
    pub fn any_below(&self, i: u64) -> bool {
        !self.is_zero() && self.trailing_zeros() < i
    }
    pub fn cmp(&self, o: &Self) -> Ordering {
        if self.l.len() != o.l.len() {
            return self.l.len().cmp(&o.l.len());
        }
        for i in (0..self.l.len()).rev() {
            if self.l[i] != o.l[i] {
                return self.l[i].cmp(&o.l[i]);
            }
        }
        Ordering::Equal
    }
    pub fn add(&self, o: &Self) -> Self {
        let (a, b) = if self.l.len() >= o.l.len() {
            (self, o)
        } else {
            (o, self)
        };
        let mut r = Vec::with_capacity(a.l.len() + 1);
        let mut carry = 0u64;
        for i in 0..a.l.len() {
            let y = if i < b.l.len() { b.l[i] } else { 0 };
            let (s1, c1) = a.l[i].overflowing_add(y);
            let (s2, c2) = s1.overflowing_add(carry);
            r.push(s2);
            carry = (c1 as u64) + (c2 as u64);
        }
        if carry != 0 {
            r.push(carry);
        }
        BigUint { l: r }
    }
    /// self - o, requires self >= o.
    pub fn sub(&self, o: &Self) -> Self {
        debug_assert!(self.cmp(o) != Ordering::Less);
        let mut r = Vec::with_capacity(self.l.len());
        let mut borrow = 0u64;
        for i in 0..self.l.len() {
            let y = if i < o.l.len() { o.l[i] } else { 0 };
            let (d1, b1) = self.l[i].overflowing_sub(y);
            let (d2, b2) = d1.overflowing_sub(borrow);
            r.push(d2);
            borrow = (b1 as u64) + (b2 as u64);
        }
        assert!(borrow == 0, "BigUint::sub underflow");
        let mut r = BigUint { l: r };
        r.trim();
        r
    }
    pub fn mul(&self, o: &Self) -> Self {
        if self.is_zero() || o.is_zero() {
            return Self::zero();
        }
        let mut r = vec![0u64; self.l.len() + o.l.len()];
        for i in 0..self.l.len() {
            let mut carry = 0u128;
            let x = self.l[i] as u128;
            if x == 0 {
                continue;
            }
            for j in 0..o.l.len() {
                let t = x * (o.l[j] as u128) + (r[i + j] as u128) + carry;
                r[i + j] = t as u64;
                carry = t >> 64;
            }
            let mut k = i + o.l.len();
            while carry != 0 {
                let t = (r[k] as u128) + carry;
                r[k] = t as u64;
                carry = t >> 64;
                k += 1;
            }
        }
        let mut r = BigUint { l: r };
        r.trim();
        r
    }
    pub fn mul_u64(&self, x: u64) -> Self {
        self.mul(&BigUint::from_u64(x))
    }
    pub fn shl(&self, n: u64) -> Self {
        if self.is_zero() {
            return Self::zero();
        }
        let ws = (n / 64) as usize;
        let bs = (n % 64) as u32;
        let mut r = vec![0u64; ws];
        if bs == 0 {
            r.extend_from_slice(&self.l);
        } else {
            let mut carry = 0u64;
            for &w in &self.l {
                r.push((w << bs) | carry);
                carry = w >> (64 - bs);
            }
            if carry != 0 {
                r.push(carry);
            }
        }
        BigUint { l: r }
    }
    /// Floor shift right.
    pub fn shr(&self, n: u64) -> Self {
        let ws = (n / 64) as usize;
        let bs = (n % 64) as u32;
        if ws >= self.l.len() {
            return Self::zero();
        }
        let src = &self.l[ws..];
        let mut r = Vec::with_capacity(src.len());
        if bs == 0 {
            r.extend_from_slice(src);
        } else {
            for i in 0..src.len() {
                let hi = if i + 1 < src.len() { src[i + 1] } else { 0 };
                r.push((src[i] >> bs) | (hi << (64 - bs)));
            }
        }
        let mut r = BigUint { l: r };
        r.trim();
        r
    }
    /// Quotient and remainder by binary long division.
    pub fn divrem(&self, d: &Self) -> (Self, Self) {
        assert!(!d.is_zero(), "division by zero");
        if self.cmp(d) == Ordering::Less {
            return (Self::zero(), self.clone());
        }
        let steps = self.bits() - d.bits();
        let mut rem = self.clone();
        let mut q = vec![0u64; (steps / 64 + 1) as usize];
        let mut t = d.shl(steps);
        let mut i = steps as i64;
        while i >= 0 {
            if rem.cmp(&t) != Ordering::Less {
                rem = rem.sub(&t);
                q[(i / 64) as usize] |= 1u64 << (i % 64);
            }
            t = t.shr(1);
            i -= 1;
        }
        let mut q = BigUint { l: q };
        q.trim();
        (q, rem)
    }
    pub fn is_odd(&self) -> bool {
        !self.l.is_empty() && self.l[0] & 1 == 1
    }
    pub fn to_u128(&self) -> Option<u128> {
        match self.l.len() {
            0 => Some(0),
            1 => Some(self.l[0] as u128),
            2 => Some((self.l[0] as u128) | ((self.l[1] as u128) << 64)),
            _ => None,
        }
    }
    /// Top 64 bits as (mantissa, shift) with value ~= mantissa * 2^shift (truncated).
    pub fn approx(&self) -> (f64, i64) {
        let b = self.bits();
        if b == 0 {
            return (0.0, 0);
        }
        if b <= 64 {
            return (self.l[0] as f64, 0);
        }
        let sh = b - 64;
        let top = self.shr(sh);
        (top.l[0] as f64, sh as i64)
    }
}

/// Signed dyadic rational m * 2^e (m is a signed big integer stored as sign + magnitude).
#[derive(Clone, Debug)]
pub struct Dy {
    pub neg: bool,
    pub m: BigUint,
    pub e: i64,
}

impl Dy {
    pub fn zero() -> Self {
        Dy {
            neg: false,
            m: BigUint::zero(),
            e: 0,
        }
    }
    pub fn from_u128(x: u128) -> Self {
        Dy {
            neg: false,
            m: BigUint::from_u128(x),
            e: 0,
        }
    }
    pub fn from_i128(x: i128) -> Self {
        Dy {
            neg: x < 0,
            m: BigUint::from_u128(x.unsigned_abs()),
            e: 0,
        }
    }
    pub fn from_i64(x: i64) -> Self {
        Self::from_i128(x as i128)
    }
    /// 2^k
    pub fn pow2(k: i64) -> Self {
        Dy {
            neg: false,
            m: BigUint::from_u64(1),
            e: k,
        }
    }
    /// Exact value of a finite f64 (panics on NaN/inf: callers screen those).
    pub fn from_f64(x: f64) -> Self {
        let bits = x.to_bits();
        let neg = bits >> 63 == 1;
        let be = ((bits >> 52) & 0x7ff) as i64;
        let frac = bits & ((1u64 << 52) - 1);
        assert!(be != 0x7ff, "Dy::from_f64 on non-finite value");
        let (m, e) = if be == 0 {
            (frac, -1074)
        } else {
            (frac | (1u64 << 52), be - 1075)
        };
        let mut d = Dy {
            neg,
            m: BigUint::from_u64(m),
            e,
        };
        if d.m.is_zero() {
            d.neg = false;
            d.e = 0;
        }
        d
    }
    /// Exact value hi + lo.
    pub fn from_tf(hi: f64, lo: f64) -> Self {
        Dy::from_f64(hi).add(&Dy::from_f64(lo))
    }
    pub fn is_zero(&self) -> bool {
        self.m.is_zero()
    }
    /// -1, 0, 1
    pub fn sign(&self) -> i32 {
        if self.m.is_zero() {
            0
        } else if self.neg {
            -1
        } else {
            1
        }
    }
    pub fn neg(&self) -> Self {
        let mut r = self.clone();
        if !r.m.is_zero() {
            r.neg = !r.neg;
        }
        r
    }
    pub fn abs(&self) -> Self {
        let mut r = self.clone();
        r.neg = false;
        r
    }
    fn align(a: &Dy, b: &Dy) -> (BigUint, BigUint, i64) {
        if a.m.is_zero() {
            return (BigUint::zero(), b.m.clone(), b.e);
        }
        if b.m.is_zero() {
            return (a.m.clone(), BigUint::zero(), a.e);
        }
        let e = a.e.min(b.e);
        (a.m.shl((a.e - e) as u64), b.m.shl((b.e - e) as u64), e)
    }
    pub fn add(&self, o: &Dy) -> Dy {
        let (x, y, e) = Dy::align(self, o);
        if self.neg == o.neg {
            let m = x.add(&y);
            let neg = self.neg && !m.is_zero();
            Dy { neg, m, e }
        } else {
            match x.cmp(&y) {
                Ordering::Equal => Dy::zero(),
                Ordering::Greater => Dy {
                    neg: self.neg,
                    m: x.sub(&y),
                    e,
                },
                Ordering::Less => Dy {
                    neg: o.neg,
                    m: y.sub(&x),
                    e,
                },
            }
        }
    }
    pub fn sub(&self, o: &Dy) -> Dy {
        self.add(&o.neg())
    }
    pub fn mul(&self, o: &Dy) -> Dy {
        let m = self.m.mul(&o.m);
        if m.is_zero() {
            return Dy::zero();
        }
        Dy {
            neg: self.neg != o.neg,
            m,
            e: self.e + o.e,
        }
    }
    pub fn mul_u64(&self, k: u64) -> Dy {
        self.mul(&Dy::from_u128(k as u128))
    }
    pub fn mul_pow2(&self, k: i64) -> Dy {
        let mut r = self.clone();
        if !r.m.is_zero() {
            r.e += k;
        }
        r
    }
    pub fn cmp_abs(&self, o: &Dy) -> Ordering {
        let (x, y, _) = Dy::align(self, o);
        x.cmp(&y)
    }
    pub fn cmp(&self, o: &Dy) -> Ordering {
        match (self.sign(), o.sign()) {
            (a, b) if a != b => a.cmp(&b),
            (0, _) => Ordering::Equal,
            (1, _) => self.cmp_abs(o),
            _ => o.cmp_abs(self),
        }
    }
    pub fn eq(&self, o: &Dy) -> bool {
        self.cmp(o) == Ordering::Equal
    }
    pub fn le(&self, o: &Dy) -> bool {
        self.cmp(o) != Ordering::Greater
    }
    pub fn lt(&self, o: &Dy) -> bool {
        self.cmp(o) == Ordering::Less
    }
    /// floor(log2 |x|) for x != 0.
    pub fn ilog2(&self) -> i64 {
        assert!(!self.m.is_zero());
        self.m.bits() as i64 - 1 + self.e
    }
    pub fn is_integer(&self) -> bool {
        self.m.is_zero() || self.e >= 0 || self.m.trailing_zeros() as i64 >= -self.e
    }
    /// Integer part toward zero, and whether a non-zero fraction was discarded.
    fn trunc_parts(&self) -> (BigUint, bool) {
        if self.e >= 0 {
            (self.m.shl(self.e as u64), false)
        } else {
            let s = (-self.e) as u64;
            (self.m.shr(s), self.m.any_below(s))
        }
    }
    fn from_int(neg: bool, m: BigUint) -> Dy {
        let neg = neg && !m.is_zero();
        Dy { neg, m, e: 0 }
    }
    pub fn trunc(&self) -> Dy {
        let (i, _) = self.trunc_parts();
        Dy::from_int(self.neg, i)
    }
    pub fn floor(&self) -> Dy {
        let (i, frac) = self.trunc_parts();
        if self.neg && frac {
            Dy::from_int(true, i.add(&BigUint::from_u64(1)))
        } else {
            Dy::from_int(self.neg, i)
        }
    }
    pub fn ceil(&self) -> Dy {
        let (i, frac) = self.trunc_parts();
        if !self.neg && frac {
            Dy::from_int(false, i.add(&BigUint::from_u64(1)))
        } else {
            Dy::from_int(self.neg, i)
        }
    }
    /// Nearest integer, halves away from zero.
    pub fn round_half_away(&self) -> Dy {
        if self.e >= 0 {
            return self.trunc();
        }
        let s = (-self.e) as u64;
        let i = self.m.shr(s);
        let half = self.m.bit(s - 1);
        if half {
            Dy::from_int(self.neg, i.add(&BigUint::from_u64(1)))
        } else {
            Dy::from_int(self.neg, i)
        }
    }
    /// Integer value as i128 if it is an integer that fits.
    pub fn to_i128(&self) -> Option<i128> {
        if !self.is_integer() {
            return None;
        }
        let (i, _) = self.trunc_parts();
        let u = i.to_u128()?;
        if self.neg {
            if u <= (1u128 << 127) {
                Some((u as i128).wrapping_neg())
            } else {
                None
            }
        } else if u < (1u128 << 127) {
            Some(u as i128)
        } else {
            None
        }
    }
    /// For an integer value: is it odd?
    pub fn is_odd_integer(&self) -> bool {
        if !self.is_integer() || self.m.is_zero() {
            return false;
        }
        if self.e > 0 {
            false
        } else {
            self.m.bit((-self.e) as u64)
        }
    }
    /// Integer value as u128 if it is a non-negative integer that fits.
    pub fn to_u128(&self) -> Option<u128> {
        if !self.is_integer() || (self.neg && !self.m.is_zero()) {
            return None;
        }
        let (i, _) = self.trunc_parts();
        i.to_u128()
    }
    /// Round to nearest f64, ties to even, with gradual underflow and overflow to infinity.
    pub fn to_f64_rn(&self) -> f64 {
        if self.m.is_zero() {
            return 0.0;
        }
        let nb = self.m.bits() as i64;
        // value = m * 2^e ; exponent of leading bit:
        let top = nb - 1 + self.e;
        // target: keep 53 bits normally, fewer if subnormal
        let lsb_exp = if top - 52 < -1074 { -1074 } else { top - 52 };
        // shift so that unit = 2^lsb_exp
        let sh = lsb_exp - self.e; // number of low bits of m to drop (may be negative)
        let mut q: BigUint;
        if sh <= 0 {
            q = self.m.shl((-sh) as u64);
        } else {
            let s = sh as u64;
            q = self.m.shr(s);
            let half = self.m.bit(s - 1);
            let sticky = self.m.any_below(s - 1);
            if half && (sticky || q.is_odd()) {
                q = q.add(&BigUint::from_u64(1));
            }
        }
        // value = q * 2^lsb_exp with q <= 2^53
        let mut qv = q.to_u128().unwrap() as u64;
        let mut le = lsb_exp;
        let v = if le == -1074 {
            // subnormal range (and the first normal binades): the bit pattern is q itself
            f64::from_bits(qv)
        } else {
            if qv == 1u64 << 53 {
                qv >>= 1;
                le += 1;
            }
            debug_assert!(qv >> 52 == 1);
            let biased = le + 1075;
            if biased >= 2047 {
                f64::INFINITY
            } else {
                f64::from_bits(((biased as u64) << 52) | (qv & ((1u64 << 52) - 1)))
            }
        };
        if self.neg {
            -v
        } else {
            v
        }
    }
    /// Approximate as (mantissa f64, exponent) such that value ~= mant * 2^exp (rel. err < 2^-52).
    pub fn approx(&self) -> (f64, i64) {
        let (m, sh) = self.m.approx();
        let m = if self.neg { -m } else { m };
        (m, sh + self.e)
    }
    /// Approximate f64 value of self / o (for statistics only).
    pub fn ratio_f64(&self, o: &Dy) -> f64 {
        if o.is_zero() {
            return if self.is_zero() { 0.0 } else { f64::INFINITY };
        }
        let (a, ea) = self.approx();
        let (b, eb) = o.approx();
        let r = a / b;
        let k = ea - eb;
        if k > 2000 {
            return f64::INFINITY * r.signum();
        }
        if k < -2000 {
            return 0.0;
        }
        let mut v = r;
        let mut k = k;
        while k > 500 {
            v *= pow2_f64(500);
            k -= 500;
        }
        while k < -500 {
            v *= pow2_f64(-500);
            k += 500;
        }
        v * pow2_f64(k)
    }
    /// log2 of |self| approximately (for statistics/samples).
    pub fn log2_approx(&self) -> f64 {
        if self.is_zero() {
            return f64::NEG_INFINITY;
        }
        let (m, e) = self.approx();
        libm::log2(m.abs()) + e as f64
    }
}

/// 2^k as f64 for k in [-1074, 1023].
pub fn pow2_f64(k: i64) -> f64 {
    if k >= -1022 {
        assert!(k <= 1023);
        f64::from_bits(((k + 1023) as u64) << 52)
    } else {
        assert!(k >= -1074);
        f64::from_bits(1u64 << (k + 1074))
    }
}

/// Reference validity predicate (Definition 1.4): both finite and RN(hi + lo) == hi.
pub fn valid_ref(hi: f64, lo: f64) -> bool {
    hi.is_finite() && lo.is_finite() && hi + lo == hi
}

/// |r - t| * 2^q <= p * |t|
pub fn rel_le(r: &Dy, t: &Dy, p: u64, q: i64) -> bool {
    let lhs = r.sub(t).abs().mul_pow2(q);
    let rhs = t.abs().mul_u64(p);
    lhs.le(&rhs)
}

/// |r - t| * 2^q / (p * |t|) as f64 (0 when r == t).
pub fn rel_ratio(r: &Dy, t: &Dy, p: u64, q: i64) -> f64 {
    let lhs = r.sub(t).abs().mul_pow2(q);
    if lhs.is_zero() {
        return 0.0;
    }
    let rhs = t.abs().mul_u64(p);
    lhs.ratio_f64(&rhs)
}

/// unit in the last place of a finite non-zero f64 (2^(e-52), subnormal spacing at the bottom).
pub fn ulp_dy(x: f64) -> Dy {
    let be = ((x.to_bits() >> 52) & 0x7ff) as i64;
    if be == 0 {
        Dy::pow2(-1074)
    } else {
        Dy::pow2(be - 1075)
    }
}

#[cfg(test)]
mod tests {
    use super::*;

    struct R(u64);
    impl R {
        fn next(&mut self) -> u64 {
            self.0 = self.0.wrapping_add(0x9e3779b97f4a7c15);
            let mut z = self.0;
            z = (z ^ (z >> 30)).wrapping_mul(0xbf58476d1ce4e5b9);
            z = (z ^ (z >> 27)).wrapping_mul(0x94d049bb133111eb);
            z ^ (z >> 31)
        }
        fn f64(&mut self) -> f64 {
            loop {
                let mut b = self.next();
                match self.next() % 4 {
                    0 => b &= !((1u64 << (self.next() % 52)) - 1),
                    1 => b |= (1u64 << (self.next() % 52)) - 1,
                    _ => {}
                }
                let x = f64::from_bits(b);
                if x.is_finite() {
                    return x;
                }
            }
        }
        fn f64_near(&mut self, c: i64, w: i64) -> f64 {
            let x = self.f64();
            let b = x.to_bits();
            let e = (1023 + c + (self.next() % (2 * w as u64 + 1)) as i64 - w).clamp(0, 2046) as u64;
            f64::from_bits((b & !(0x7ffu64 << 52)) | (e << 52))
        }
    }

    #[test]
    fn biguint_vs_u128() {
        let mut r = R(1);
        for _ in 0..200000 {
            let a = (r.next() as u128) << (r.next() % 60) | r.next() as u128 >> (r.next() % 64);
            let b = ((r.next() as u128) >> (r.next() % 64)) + 1;
            let (ba, bb) = (BigUint::from_u128(a), BigUint::from_u128(b));
            assert_eq!(ba.add(&bb).to_u128(), a.checked_add(b));
            if a >= b {
                assert_eq!(ba.sub(&bb).to_u128(), Some(a - b));
            }
            let (q, m) = ba.divrem(&bb);
            assert_eq!(q.to_u128(), Some(a / b));
            assert_eq!(m.to_u128(), Some(a % b));
            let (x, y) = (a as u64 as u128, b as u64 as u128);
            assert_eq!(
                BigUint::from_u128(x).mul(&BigUint::from_u128(y)).to_u128(),
                Some(x * y)
            );
            let s = r.next() % 70;
            assert_eq!(ba.shr(s).to_u128(), Some(a >> s));
            assert_eq!(ba.shl(s).shr(s), ba);
            assert_eq!(ba.bits(), 128 - a.leading_zeros() as u64);
            assert_eq!(ba.cmp(&bb), a.cmp(&b));
        }
    }

    #[test]
    fn mul_div_big() {
        let mut r = R(7);
        for _ in 0..20000 {
            let n = 1 + (r.next() % 6) as usize;
            let m = 1 + (r.next() % 4) as usize;
            let mut a = BigUint {
                l: (0..n).map(|_| r.next()).collect(),
            };
            a.trim();
            let mut b = BigUint {
                l: (0..m).map(|_| r.next() >> (r.next() % 64)).collect(),
            };
            b.trim();
            if b.is_zero() {
                continue;
            }
            let p = a.mul(&b);
            let (q, rem) = p.divrem(&b);
            assert_eq!(q, a);
            assert!(rem.is_zero());
            let c = BigUint::from_u64(r.next() >> 1);
            if c.cmp(&b) == Ordering::Less {
                let (q2, r2) = p.add(&c).divrem(&b);
                assert_eq!(q2, a);
                assert_eq!(r2, c);
            }
        }
    }

    #[test]
    fn rn_matches_hardware_add_mul() {
        let mut r = R(3);
        for i in 0..400000 {
            let a = if i % 3 == 0 { r.f64_near(0, 60) } else { r.f64() };
            let b = match i % 5 {
                0 => r.f64_near(0, 60),
                1 => f64::from_bits(a.to_bits() ^ (r.next() % 8)) * if i % 2 == 0 { -1.0 } else { 1.0 },
                2 => r.f64_near(-1000, 74),
                _ => r.f64(),
            };
            let (da, db) = (Dy::from_f64(a), Dy::from_f64(b));
            let s = a + b;
            if s.is_finite() {
                assert_eq!(da.add(&db).to_f64_rn().to_bits() & !(1 << 63), s.to_bits() & !(1 << 63), "{a:e}+{b:e}");
            } else {
                assert!(da.add(&db).to_f64_rn().is_infinite());
            }
            let p = a * b;
            let e = da.mul(&db).to_f64_rn();
            if p.is_finite() {
                assert_eq!(e.abs().to_bits(), p.abs().to_bits(), "{a:e}*{b:e}");
            } else {
                assert!(e.is_infinite());
            }
            let c = r.f64_near(0, 80);
            let a2 = r.f64_near(0, 40);
            let b2 = r.f64_near(0, 40);
            let f = f64::mul_add(a2, b2, c);
            let ef = Dy::from_f64(a2).mul(&Dy::from_f64(b2)).add(&Dy::from_f64(c)).to_f64_rn();
            assert_eq!(ef.abs().to_bits(), f.abs().to_bits());
        }
    }

    #[test]
    fn roundings() {
        for &(x, fl, ce, tr, ro) in &[
            (2.5, 2.0, 3.0, 2.0, 3.0),
            (-2.5, -3.0, -2.0, -2.0, -3.0),
            (0.25, 0.0, 1.0, 0.0, 0.0),
            (-0.25, -1.0, 0.0, 0.0, 0.0),
            (-0.5, -1.0, 0.0, 0.0, -1.0),
            (7.0, 7.0, 7.0, 7.0, 7.0),
            (1e300, 1e300, 1e300, 1e300, 1e300),
            (0.49999999999999994, 0.0, 1.0, 0.0, 0.0),
        ] {
            let d = Dy::from_f64(x);
            assert!(d.floor().eq(&Dy::from_f64(fl)), "floor {x}");
            assert!(d.ceil().eq(&Dy::from_f64(ce)), "ceil {x}");
            assert!(d.trunc().eq(&Dy::from_f64(tr)), "trunc {x}");
            assert!(d.round_half_away().eq(&Dy::from_f64(ro)), "round {x}");
        }
        let mut r = R(9);
        for _ in 0..200000 {
            let x = r.f64_near(20, 60);
            let d = Dy::from_f64(x);
            assert!(d.floor().eq(&Dy::from_f64(x.floor())));
            assert!(d.ceil().eq(&Dy::from_f64(x.ceil())));
            assert!(d.trunc().eq(&Dy::from_f64(x.trunc())));
            assert!(d.round_half_away().eq(&Dy::from_f64(x.round())));
            assert_eq!(d.to_f64_rn().to_bits(), x.to_bits());
        }
    }

    #[test]
    fn subnormal_rn() {
        // ties and subnormals
        let tiny = Dy::pow2(-1075);
        assert_eq!(tiny.to_f64_rn(), 0.0); // tie to even (0)
        let t3 = Dy::pow2(-1075).mul_u64(3);
        assert_eq!(t3.to_f64_rn(), f64::from_bits(2)); // 1.5 ulp -> 2 ulp (even)
        assert_eq!(Dy::pow2(-1074).to_f64_rn(), f64::from_bits(1));
        assert_eq!(Dy::pow2(1024).to_f64_rn(), f64::INFINITY);
        let almost = Dy::from_f64(f64::MAX).add(&Dy::pow2(969)); // below the tie 2^970
        assert_eq!(almost.to_f64_rn(), f64::MAX);
        let tie = Dy::from_f64(f64::MAX).add(&Dy::pow2(970));
        assert_eq!(tie.to_f64_rn(), f64::INFINITY);
        assert_eq!(Dy::from_f64(-3.5).to_i128(), None);
        assert_eq!(Dy::from_f64(-3.0).to_i128(), Some(-3));
        assert_eq!(Dy::pow2(127).neg().to_i128(), Some(i128::MIN));
        assert_eq!(Dy::pow2(127).to_i128(), None);
    }

    #[test]
    fn ratio_and_rel() {
        let t = Dy::from_f64(3.0);
        let r = Dy::from_f64(3.0).add(&Dy::pow2(-100));
        assert!(rel_le(&r, &t, 1, 100)); // 2^-100 * 2^100 = 1 <= 3
        assert!(!rel_le(&r, &t, 1, 102));
        let q = rel_ratio(&r, &t, 1, 100);
        assert!((q - 1.0 / 3.0).abs() < 1e-12);
        assert!(valid_ref(1.0, 1.1102230246251565e-16));
        assert!(!valid_ref(1.0000000000000002, 1.1102230246251565e-16));
    }
}
