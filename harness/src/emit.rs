//! Event-log emitter for the offline high-precision (mpmath) checker.
//! Line formats (all words are 16-digit hex bit patterns of f64, or i64 for integer args):
//!   E <op> <nin> <in...> <nout> <out...>
//!   P <op> <nin> <in...> <panic message>
//!   K <name> <hi> <lo>                 (a constant as seen by the running code)
//!   T <site> <index> <count>           (table / branch touch counters from the verif_hooks feature)
//!   END <events>

use crate::ctx::guard;
use crate::gen::Rng;
use std::io::{BufWriter, Stdout, Write};

pub struct Emit {
    pub out: BufWriter<Stdout>,
    pub rng: Rng,
    pub tier: u8,
    pub shard: u64,
    pub nshards: u64,
    pub scale: f64,
    pub n: u64,
    pub triaged: u64,
    pub triage_diffs: u64,
}

impl Emit {
    pub fn new(prop: &str, tier: u8, seed: u64, shard: u64, nshards: u64, scale: f64) -> Self {
        let stream = prop.bytes().fold(7u64, |a, b| a * 131 + b as u64);
        Emit {
            out: BufWriter::with_capacity(1 << 16, std::io::stdout()),
            rng: Rng::new(seed, stream, shard),
            tier,
            shard,
            nshards,
            scale,
            n: 0,
            triaged: 0,
            triage_diffs: 0,
        }
    }
    pub fn budget(&self, quick: u64, thorough: u64) -> u64 {
        let total = if self.tier == 0 { quick } else { thorough };
        (((total as f64) * self.scale) as u64 / self.nshards.max(1)).max(1)
    }
    /// Run one call under the panic monitor and log it.
    pub fn ev(&mut self, op: &str, ins: &[u64], f: impl FnOnce() -> Vec<f64>) {
        self.n += 1;
        match guard(f) {
            Ok(o) => {
                let _ = write!(self.out, "E {op} {}", ins.len());
                for w in ins {
                    let _ = write!(self.out, " {w:016x}");
                }
                let _ = write!(self.out, " {}", o.len());
                for w in &o {
                    let _ = write!(self.out, " {:016x}", w.to_bits());
                }
                let _ = writeln!(self.out);
            }
            Err(m) => {
                let _ = write!(self.out, "P {op} {}", ins.len());
                for w in ins {
                    let _ = write!(self.out, " {w:016x}");
                }
                let _ = writeln!(self.out, " {}", m.replace('\n', " "));
            }
        }
    }
    pub fn konst(&mut self, name: &str, hi: f64, lo: f64) {
        let _ = writeln!(self.out, "K {name} {:016x} {:016x}", hi.to_bits(), lo.to_bits());
    }
    pub fn finish(&mut self) {
        for site in 0..5usize {
            let snap = twofloat::verif_hooks::snapshot(site);
            for (i, cnt) in snap.iter().enumerate() {
                if *cnt > 0 {
                    let _ = writeln!(self.out, "T {site} {i} {cnt}");
                }
            }
        }
        let _ = writeln!(self.out, "G {} {}", self.triaged, self.triage_diffs);
        let _ = writeln!(self.out, "END {}", self.n);
        let _ = self.out.flush();
    }
}
