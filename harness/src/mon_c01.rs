//! C01: every TwoFloat produced by the public API from valid in-range operands is valid or has a
//! non-finite high word. Per-operation sweeps over the class matrix + a random-program VM that
//! feeds results back as operands.

use crate::ctx::{guard, hx, Ctx};
use crate::exact::{valid_ref, Dy};
use crate::gen::*;
use crate::mon_arith::{t, w, W};
use num_traits::Float;
use serde_json::json;
use std::cmp::Ordering;
use twofloat::{consts, TwoFloat};

pub const N_UN: u64 = 33;
pub const UN_NAMES: [&str; 33] = [
    "neg", "abs", "signum", "floor", "ceil", "trunc", "round", "fract", "recip", "to_degrees", "to_radians", "sqrt", "cbrt", "exp", "exp2", "exp_m1", "ln",
    "log2", "log10", "ln_1p", "sin", "cos", "tan", "asin", "acos", "atan", "sinh", "cosh", "tanh", "asinh", "acosh", "atanh", "sin_cos",
];
pub fn un(i: u64, x: TwoFloat) -> (TwoFloat, Option<TwoFloat>) {
    let r = match i {
        0 => -x,
        1 => x.abs(),
        2 => x.signum(),
        3 => x.floor(),
        4 => x.ceil(),
        5 => x.trunc(),
        6 => x.round(),
        7 => x.fract(),
        8 => x.recip(),
        9 => x.to_degrees(),
        10 => x.to_radians(),
        11 => x.sqrt(),
        12 => x.cbrt(),
        13 => x.exp(),
        14 => x.exp2(),
        15 => x.exp_m1(),
        16 => x.ln(),
        17 => x.log2(),
        18 => x.log10(),
        19 => x.ln_1p(),
        20 => x.sin(),
        21 => x.cos(),
        22 => x.tan(),
        23 => x.asin(),
        24 => x.acos(),
        25 => x.atan(),
        26 => x.sinh(),
        27 => x.cosh(),
        28 => x.tanh(),
        29 => x.asinh(),
        30 => x.acosh(),
        31 => x.atanh(),
        _ => {
            let (s, c) = x.sin_cos();
            return (s, Some(c));
        }
    };
    (r, None)
}

pub const N_BIN: u64 = 23;
pub const BIN_NAMES: [&str; 23] = [
    "add", "sub", "mul", "div", "rem", "add_assign", "sub_assign", "mul_assign", "div_assign", "rem_assign", "min", "max", "copysign", "div_euclid", "rem_euclid",
    "hypot", "powf", "log", "atan2", "mul_add", "abs_sub", "add_ref", "mul_ref",
];
pub fn bin(i: u64, a: TwoFloat, b: TwoFloat) -> TwoFloat {
    match i {
        0 => a + b,
        1 => a - b,
        2 => a * b,
        3 => a / b,
        4 => a % b,
        5 => {
            let mut x = a;
            x += b;
            x
        }
        6 => {
            let mut x = a;
            x -= b;
            x
        }
        7 => {
            let mut x = a;
            x *= b;
            x
        }
        8 => {
            let mut x = a;
            x /= b;
            x
        }
        9 => {
            let mut x = a;
            x %= b;
            x
        }
        10 => a.min(b),
        11 => a.max(b),
        12 => TwoFloat::copysign(&a, &b),
        13 => a.div_euclid(b),
        14 => a.rem_euclid(b),
        15 => a.hypot(b),
        16 => a.powf(b),
        17 => a.log(b),
        18 => a.atan2(b),
        19 => Float::mul_add(a, b, a),
        20 => Float::abs_sub(a, b),
        21 => &a + &b,
        _ => &a * &b,
    }
}

pub const N_MIX: u64 = 15;
pub const MIX_NAMES: [&str; 15] = [
    "add_tf", "sub_tf", "mul_tf", "div_tf", "rem_tf", "add_ft", "sub_ft", "mul_ft", "div_ft", "rem_ft", "add_assign_f", "sub_assign_f", "mul_assign_f", "div_assign_f", "rem_assign_f",
];
pub fn mix(i: u64, a: TwoFloat, f: f64) -> TwoFloat {
    match i {
        0 => a + f,
        1 => a - f,
        2 => a * f,
        3 => a / f,
        4 => a % f,
        5 => f + a,
        6 => f - a,
        7 => f * a,
        8 => f / a,
        9 => f % a,
        10 => {
            let mut x = a;
            x += f;
            x
        }
        11 => {
            let mut x = a;
            x -= f;
            x
        }
        12 => {
            let mut x = a;
            x *= f;
            x
        }
        13 => {
            let mut x = a;
            x /= f;
            x
        }
        _ => {
            let mut x = a;
            x %= f;
            x
        }
    }
}

pub fn in_range(x: W) -> bool {
    valid_ref(x.0, x.1) && (x.0 == 0.0 || (exp_of(x.0) >= -1000 && exp_of(x.0) < 1000) || x.0.abs() == pow2(1000))
}
pub fn f_in_range(f: f64) -> bool {
    f == 0.0 || (f.is_finite() && exp_of(f) >= -1000 && exp_of(f) < 1000)
}

/// The C01 verdict for one produced value.
fn check(c: &mut Ctx, op: &'static str, ins: &[u64], r: W) -> bool {
    if !r.0.is_finite() {
        c.count("results_nonfinite_hi");
        return true;
    }
    if valid_ref(r.0, r.1) {
        return true;
    }
    let what = if !r.1.is_finite() { "finite high word with a non-finite low word" } else { "finite high word with an overlapping low word" };
    c.viol(op, "not_normalised", ins, &[hx(r.0), hx(r.1)], what.into());
    false
}

fn run_un(c: &mut Ctx, i: u64, a: W) -> Option<W> {
    let op = UN_NAMES[i as usize];
    let ins = [hx(a.0), hx(a.1)];
    c.note(op, &ins, a.0 != 0.0);
    match guard(|| {
        let (r, s) = un(i, t(a));
        (w(r), s.map(w))
    }) {
        Err(_) => {
            c.panics += 1;
            c.count("panics_seen");
            None
        }
        Ok((r, s)) => {
            check(c, op, &ins, r);
            if let Some(s) = s {
                check(c, op, &ins, s);
            }
            Some(r)
        }
    }
}
fn run_bin(c: &mut Ctx, i: u64, a: W, b: W) -> Option<W> {
    let op = BIN_NAMES[i as usize];
    let ins = [hx(a.0), hx(a.1), hx(b.0), hx(b.1)];
    c.note(op, &ins, a.0 != 0.0 && b.0 != 0.0);
    match guard(|| w(bin(i, t(a), t(b)))) {
        Err(_) => {
            c.panics += 1;
            c.count("panics_seen");
            None
        }
        Ok(r) => {
            check(c, op, &ins, r);
            Some(r)
        }
    }
}
fn run_mix(c: &mut Ctx, i: u64, a: W, f: f64) -> Option<W> {
    let op = MIX_NAMES[i as usize];
    let ins = [hx(a.0), hx(a.1), hx(f)];
    c.note(op, &ins, a.0 != 0.0 && f != 0.0);
    match guard(|| w(mix(i, t(a), f))) {
        Err(_) => {
            c.panics += 1;
            c.count("panics_seen");
            None
        }
        Ok(r) => {
            check(c, op, &ins, r);
            Some(r)
        }
    }
}
fn run_powi(c: &mut Ctx, a: W, n: i32) -> Option<W> {
    let ins = [hx(a.0), hx(a.1), n as i64 as u64];
    c.note("powi", &ins, a.0 != 0.0);
    match guard(|| w(t(a).powi(n))) {
        Err(_) => {
            c.panics += 1;
            c.count("panics_seen");
            None
        }
        Ok(r) => {
            check(c, "powi", &ins, r);
            Some(r)
        }
    }
}
/// Constructors from two f64 (with the stated proviso for the product / quotient).
fn run_ctor(c: &mut Ctx, i: u64, a: f64, b: f64) -> Option<W> {
    let names = ["new_add", "new_sub", "new_mul", "new_div"];
    let op = names[i as usize];
    let (da, db) = (Dy::from_f64(a), Dy::from_f64(b));
    match i {
        2 => {
            let p = da.mul(&db);
            if !(p.is_zero() || p.abs().cmp(&Dy::pow2(-960)) != Ordering::Less) {
                return None;
            }
        }
        3 => {
            // exact quotient 0 or >= 2^-960 in magnitude: |a| >= 2^-960 |b|
            if b == 0.0 || !(da.is_zero() || da.abs().cmp(&db.abs().mul_pow2(-960)) != Ordering::Less) {
                return None;
            }
        }
        _ => {}
    }
    let ins = [hx(a), hx(b)];
    c.note(op, &ins, a != 0.0 && b != 0.0);
    match guard(|| {
        w(match i {
            0 => TwoFloat::new_add(a, b),
            1 => TwoFloat::new_sub(a, b),
            2 => TwoFloat::new_mul(a, b),
            _ => TwoFloat::new_div(a, b),
        })
    }) {
        Err(_) => {
            c.panics += 1;
            None
        }
        Ok(r) => {
            check(c, op, &ins, r);
            Some(r)
        }
    }
}

/// Checked construction: whenever TryFrom accepts a pair, the value must be valid.
fn run_tryfrom(c: &mut Ctx) {
    use std::convert::TryFrom;
    let a = f64_in(&mut c.rng, -1000, 999);
    let a = if c.rng.chance(1, 4) { mk(c.rng.coin(), exp_of(a), 0) } else { a };
    let he = ulp_exp(a) - 1;
    let b = match c.rng.below(6) {
        0 => {
            let base = pow2((he + c.rng.range(-2, 1)).clamp(-1074, 1023));
            step(base, c.rng.range(-3, 3)) * if c.rng.coin() { 1.0 } else { -1.0 }
        }
        1 => {
            let e = (he - c.rng.range(0, 3)).clamp(-1074, 1023);
            if e < -1022 { pow2(e) * 1.25 } else { mk(c.rng.coin(), e, mant_any(&mut c.rng)) }
        }
        _ => {
            let cls = c.rng.below(N_LO_CLASSES);
            lo_class(&mut c.rng, a, cls)
        }
    };
    let ins = [hx(a), hx(b)];
    c.note("try_from", &ins, true);
    if let Ok((r1, r2)) = guard(|| (TwoFloat::try_from((a, b)).ok().map(w), TwoFloat::try_from([a, b]).ok().map(w))) {
        for r in [r1, r2].into_iter().flatten() {
            check(c, "try_from", &ins, r);
        }
    }
}

/// Iterator::sum results (f64 and TwoFloat items): slowly decaying series, one large head followed by
/// many tiny terms, cancelling runs.
fn run_sum(c: &mut Ctx) {
    let len = c.rng.range(2, 300) as usize;
    let mode = c.rng.below(4);
    let head = f64_in(&mut c.rng, -300, 300);
    let mut v: Vec<f64> = Vec::with_capacity(len);
    for i in 0..len {
        let x = match mode {
            0 => head * pow2(-(i as i64)),                              // geometric decay
            1 => if i == 0 { head } else { head * pow2(-c.rng.range(50, 60)) * (1.0 + (c.rng.next() >> 12) as f64 * pow2(-52)) },
            2 => if i % 2 == 0 { f64_in(&mut c.rng, -20, 20) } else { -v[i - 1] * (1.0 + pow2(-c.rng.range(10, 52))) },
            _ => f64_in(&mut c.rng, -40, 40),
        };
        v.push(if x.is_finite() { x } else { 1.0 });
    }
    let ins = [len as u64, hx(v[0]), hx(v[len - 1]), mode];
    c.note("sum", &ins, true);
    let tfs: Vec<TwoFloat> = v.iter().map(|&x| TwoFloat::from(x) * 1.0000000000000002).collect();
    for (op, r) in [
        ("sum_f64", guard(|| w(v.iter().copied().sum::<TwoFloat>()))),
        ("sum_ref_f64", guard(|| w(v.iter().sum::<TwoFloat>()))),
        ("sum_tf", guard(|| w(tfs.iter().copied().sum::<TwoFloat>()))),
        ("sum_ref_tf", guard(|| w(tfs.iter().sum::<TwoFloat>()))),
    ] {
        if let Ok(r) = r {
            check(c, op, &ins, r);
        }
    }
}

fn run_int(c: &mut Ctx) {
    // integer conversions incl. the dedicated 128-bit "tie next to an odd high word" generator
    let len = 1 + c.rng.below(128) as u32;
    let full: u128 = ((c.rng.next() as u128) << 64) | c.rng.next() as u128;
    let x = if len >= 128 { full } else { (full & ((1u128 << len) - 1)) | (1u128 << (len - 1)) };
    let v = if len > 56 && c.rng.coin() {
        let sh = len - 53;
        let top = (x >> sh) << sh;
        let half = 1u128 << (sh - 1);
        let d = c.rng.below(3) as u128;
        if c.rng.coin() {
            top + half - d
        } else {
            top.wrapping_add(half + d)
        }
    } else {
        x
    };
    let ins = [v as u64, (v >> 64) as u64];
    let sg = c.rng.coin();
    use num_traits::{FromPrimitive, NumCast};
    let extra: [(&'static str, Result<Option<W>, String>); 6] = [
        ("numcast_u128", guard(|| <TwoFloat as NumCast>::from(v).map(w))),
        ("numcast_i128", guard(|| <TwoFloat as NumCast>::from(if sg { v as i128 } else { (v as i128).wrapping_neg() }).map(w))),
        ("numcast_u64", guard(|| <TwoFloat as NumCast>::from(v as u64).map(w))),
        ("numcast_i64", guard(|| <TwoFloat as NumCast>::from(v as i64).map(w))),
        ("from_primitive_u128", guard(|| <TwoFloat as FromPrimitive>::from_u128(v).map(w))),
        ("from_primitive_i128", guard(|| <TwoFloat as FromPrimitive>::from_i128(v as i128).map(w))),
    ];
    for (op, r) in extra {
        c.note(op, &ins, v != 0);
        if let Ok(Some(r)) = r {
            check(c, op, &ins, r);
        }
    }
    let cases: [(&'static str, Result<W, String>); 6] = [
        ("from_u128", guard(|| w(<TwoFloat as From<_>>::from(v)))),
        ("from_i128", guard(|| w(<TwoFloat as From<_>>::from(if sg { v as i128 } else { (v as i128).wrapping_neg() })))),
        ("from_u64", guard(|| w(<TwoFloat as From<_>>::from(v as u64)))),
        ("from_i64", guard(|| w(<TwoFloat as From<_>>::from(v as i64)))),
        ("from_i32", guard(|| w(<TwoFloat as From<_>>::from(v as i32)))),
        ("from_u16", guard(|| w(<TwoFloat as From<_>>::from(v as u16)))),
    ];
    for (op, r) in cases {
        c.note(op, &ins, v != 0);
        if let Ok(r) = r {
            check(c, op, &ins, r);
        }
    }
}

fn consts_all() -> Vec<TwoFloat> {
    vec![
        consts::E, consts::FRAC_1_PI, consts::FRAC_2_PI, consts::FRAC_2_SQRT_PI, consts::FRAC_1_SQRT_2, consts::FRAC_PI_2, consts::FRAC_PI_3,
        consts::FRAC_PI_4, consts::FRAC_PI_6, consts::FRAC_PI_8, consts::LN_2, consts::LN_10, consts::LOG2_E, consts::LOG10_E, consts::LOG10_2,
        consts::LOG2_10, consts::PI, consts::SQRT_2, consts::TAU, TwoFloat::MAX, TwoFloat::MIN, TwoFloat::MIN_POSITIVE, TwoFloat::EPSILON,
        TwoFloat::NAN, TwoFloat::INFINITY, TwoFloat::NEG_INFINITY,
    ]
}

/// Operand suited to the function's natural domain some of the time (so that results are finite).
pub fn un_operand(r: &mut Rng, i: u64) -> W {
    if r.chance(1, 3) {
        return tf_in_or_zero(r, -1000, 999);
    }
    if r.chance(1, 5) {
        // arguments on the reduction grids of the kernels (k/256, k/128, k/2 + 1/4, small integers,
        // powers of two), alone or with a small low word: ties of the internal rounding steps
        let hi = match r.below(5) {
            0 => r.range(-180_000, 180_000) as f64 / 256.0,
            1 => r.range(-1400, 1400) as f64 * 0.5 + 0.25,
            2 => r.range(-64, 64) as f64,
            3 => pow2(r.range(-30, 9)) * if r.coin() { 1.0 } else { -1.0 },
            _ => r.range(-90_000, 90_000) as f64 / 128.0,
        };
        if hi != 0.0 {
            if r.coin() {
                return (hi, 0.0);
            }
            let (h, l, _) = tf_with_hi(r, hi);
            return (h, l);
        }
    }
    match i {
        13 | 15 | 26 | 27 | 28 => tf_in(r, -30, 9),         // exp family / hyperbolic: |x| < 1024
        14 => tf_in(r, -30, 9),
        20 | 21 | 22 | 32 => tf_in(r, -30, 19),              // trig: |x| < 2^20
        23 | 24 | 31 => tf_in(r, -40, -1),                   // |x| < 1
        16 | 17 | 18 | 11 | 30 => {
            let (h, l) = tf_in(r, -1000, 959);
            (h.abs(), if h < 0.0 { -l } else { l })
        }
        _ => tf_in(r, -200, 200),
    }
}

pub fn c01(c: &mut Ctx) {
    // (0) constants
    if c.shard == 0 {
        for (k, x) in consts_all().into_iter().enumerate() {
            let r = w(x);
            c.note("const", &[k as u64], true);
            check(c, "const", &[k as u64], r);
        }
    }
    // (a) per-operation sweeps
    let n = c.budget(20_000_000, 1_000_000_000) / (N_UN + N_BIN + N_MIX + 12);
    for _ in 0..n {
        for i in 0..N_UN {
            let a = un_operand(&mut c.rng, i);
            if in_range(a) {
                run_un(c, i, a);
            }
        }
        let (a, b, _) = tf_pair(&mut c.rng, -1000, 999);
        for i in 0..N_BIN {
            let (a, b) = if i >= 15 && i <= 18 {
                // powf / log / hypot / atan2 on moderate magnitudes half of the time
                if c.rng.coin() {
                    (tf_in(&mut c.rng, -20, 20), tf_in(&mut c.rng, -6, 6))
                } else {
                    (a, b)
                }
            } else {
                (a, b)
            };
            if in_range(a) && in_range(b) {
                run_bin(c, i, a, b);
            }
        }
        let f = f64_related(&mut c.rng, a, -1000, 999);
        for i in 0..N_MIX {
            if in_range(a) && f_in_range(f) {
                run_mix(c, i, a, f);
            }
        }
        let nn = match c.rng.below(8) {
            0 => *[0, 1, -1, i32::MIN, i32::MAX, 2, -2, 3].get(c.rng.below(8) as usize).unwrap(),
            1 => c.rng.range(-100000, 100000) as i32,
            _ => c.rng.range(-30, 30) as i32,
        };
        if in_range(a) {
            run_powi(c, a, nn);
        }
        let x = f64_in(&mut c.rng, -1000, 999);
        let y = match c.rng.below(4) {
            0 => -step(x, c.rng.range(-3, 3)),
            1 => f64_in(&mut c.rng, (exp_of(x) - 60).max(-1000), (exp_of(x) + 60).min(999)),
            _ => f64_in(&mut c.rng, -1000, 999),
        };
        for i in 0..4 {
            if f_in_range(x) && f_in_range(y) {
                run_ctor(c, i, x, y);
            }
        }
        // constructor results at the very top / bottom of the exponent range (operands themselves in range):
        // products just below overflow, sums just below f64::MAX, products / quotients at the 2^-960 proviso
        {
            let e1 = c.rng.range(24, 999);
            let x = mk(c.rng.coin(), e1, mant_any(&mut c.rng));
            let top = pk!(c.rng, [1023i64, 1022, 1021]);
            let y = mk(c.rng.coin(), (top - e1).clamp(-1000, 999), mant_any(&mut c.rng));
            run_ctor(c, 2, x, y);
            run_ctor(c, 2, y, x);
            let z = mk(c.rng.coin(), (e1 - top).clamp(-1000, 999), mant_any(&mut c.rng));
            run_ctor(c, 3, x, z);
            let e2 = c.rng.range(-940, -20);
            let u = mk(c.rng.coin(), e2, mant_any(&mut c.rng));
            let v = mk(c.rng.coin(), (-958 - e2).clamp(-1000, 999), mant_any(&mut c.rng));
            run_ctor(c, 2, u, v);
            let big = mk(c.rng.coin(), 999, mant_any(&mut c.rng));
            let b1 = mk(c.rng.coin(), 999, mant_any(&mut c.rng));
            let b2 = mk(c.rng.coin(), 998, mant_any(&mut c.rng));
            run_ctor(c, 0, big, b1);
            run_ctor(c, 1, big, b2);
            c.count("extreme_constructor_cases");
        }
        run_int(c);
        if c.rng.chance(1, 4) {
            run_sum(c);
        }
        run_tryfrom(c);
        run_tryfrom(c);
    }
    // (a') deterministic linear grids over each function's natural domain: saturation thresholds and
    //      range switches are narrow bands in *linear* scale that log-uniform sampling never meets
    let npts: i64 = if c.tier == 0 { 1 << 15 } else { 1 << 20 };
    for (gi, half_width) in [1.0f64, 4.0, 40.0, 720.0].into_iter().enumerate() {
        let stepw = 2.0 * half_width / npts as f64;
        for k in 0..npts {
            if (k as u64 + gi as u64) % c.nshards != c.shard {
                continue;
            }
            let jitter = (c.rng.next() >> 11) as f64 * pow2(-53);
            let hi = -half_width + (k as f64 + jitter) * stepw;
            let (h, l, _) = tf_with_hi(&mut c.rng, hi);
            let a = (h, l);
            if !in_range(a) {
                continue;
            }
            for i in 8..N_UN {
                // asin/acos/atanh only make sense on the unit grid, trig on all, exp family on all
                if half_width > 1.0 && (i == 23 || i == 24 || i == 31) {
                    continue;
                }
                run_un(c, i, a);
            }
            c.count("linear_grid_points");
        }
    }
    // (a'') results in the lowest binades (high word in [2^-1022, 2^-969]: the low word is subnormal or
    //       underflows), where a missing renormalisation shows up as a half-ulp tie next to an odd high word
    let nt = c.budget(6_000_000, 600_000_000);
    for i in 0..nt {
        let u = (c.rng.next() >> 11) as f64 * pow2(-53);
        match i % 6 {
            0 | 1 => {
                let x = -1022.0 + 54.0 * u;
                let (h, l, _) = tf_with_hi(&mut c.rng, x);
                run_un(c, 14, (h, l)); // exp2
            }
            2 => {
                let x = -708.3 + 37.0 * u;
                let (h, l, _) = tf_with_hi(&mut c.rng, x);
                run_un(c, 13, (h, l)); // exp
            }
            3 => {
                // products / quotients landing there
                let a = tf_in(&mut c.rng, -1000, -400);
                let eb = (-1022 + (54.0 * u) as i64) - exp_of(a.0);
                if (-1000..1000).contains(&eb) {
                    let b = tf_in(&mut c.rng, eb, eb);
                    run_bin(c, 2, a, b);
                    run_bin(c, 7, a, b);
                    run_mix(c, 2, a, b.0);
                    run_mix(c, 12, a, b.0);
                }
            }
            4 => {
                let a = tf_in(&mut c.rng, -1000, -960);
                let f = pow2(c.rng.range(1, 60));
                run_mix(c, 3, a, f);
                run_mix(c, 13, a, f);
                let b = tf_in(&mut c.rng, 1, 60);
                run_bin(c, 3, a, b);
                run_bin(c, 8, a, b);
            }
            _ => {
                let a = tf_in(&mut c.rng, -1000, -990);
                let b = tf_in(&mut c.rng, -1000, -990);
                run_bin(c, 15, a, b); // hypot
                run_bin(c, 0, a, b);
                run_bin(c, 1, a, (a.0, -a.1));
            }
        }
    }
    c.count("tiny_result_sweep_done");
    // (b) the program VM
    let progs = c.budget(80_000, 4_000_000);
    let mut max_depth = 0u64;
    let mut steps_total = 0u64;
    for pi in 0..progs {
        let mut pool: Vec<(W, u64)> = Vec::with_capacity(16);
        for _ in 0..8 {
            let x = match c.rng.below(4) {
                0 => tf_in(&mut c.rng, -8, 8),
                1 => tf_in(&mut c.rng, -1000, 999),
                2 => (c.rng.range(-50, 50) as f64, 0.0),
                _ => tf_in(&mut c.rng, -60, 60),
            };
            pool.push((x, 0));
        }
        let len = c.rng.range(50, 200);
        let mut trace: Vec<String> = Vec::new();
        for _ in 0..len {
            steps_total += 1;
            let ia = c.rng.below(pool.len() as u64) as usize;
            let ib = c.rng.below(pool.len() as u64) as usize;
            let (a, da) = pool[ia];
            let (b, db) = pool[ib];
            let before = c.viol_total;
            let (name, r, d) = match c.rng.below(10) {
                0..=2 => {
                    let i = c.rng.below(N_UN);
                    (UN_NAMES[i as usize], run_un(c, i, a), da + 1)
                }
                3..=6 => {
                    let i = c.rng.below(N_BIN);
                    (BIN_NAMES[i as usize], run_bin(c, i, a, b), da.max(db) + 1)
                }
                7 | 8 => {
                    let i = c.rng.below(N_MIX);
                    let f = if c.rng.coin() { b.0 } else { pk!(c.rng, [0.5, 2.0, 3.0, -1.0, 10.0, 0.1, 1e-3, 7.0]) };
                    if !f_in_range(f) {
                        continue;
                    }
                    (MIX_NAMES[i as usize], run_mix(c, i, a, f), da + 1)
                }
                _ => {
                    let nn = c.rng.range(-5, 5) as i32;
                    ("powi", run_powi(c, a, nn), da + 1)
                }
            };
            if pi < 2 && trace.len() < 12 {
                trace.push(name.to_string());
            }
            if c.viol_total > before {
                c.count("vm_violations");
            }
            if let Some(r) = r {
                // feed back only values inside the property's hypothesis
                if in_range(r) && r.0 != 0.0 {
                    let slot = c.rng.below(16) as usize;
                    if slot < pool.len() {
                        pool[slot] = (r, d);
                    } else {
                        pool.push((r, d));
                    }
                    max_depth = max_depth.max(d);
                    c.count("vm_results_fed_back");
                }
            }
        }
        if pi < 2 {
            let tr = trace.clone();
            c.sample("vm_program", || json!({"first_steps": tr, "length": len}));
        }
    }
    c.extra.insert("vm_programs".into(), json!(progs));
    c.extra.insert("vm_steps".into(), json!(steps_total));
    let cur = c.extra.get("vm_max_derivation_depth").and_then(|x| x.as_u64()).unwrap_or(0);
    c.extra.insert("vm_max_derivation_depth".into(), json!(cur.max(max_depth)));
}
