//! C02 (error-free constructors), C03 (add/sub), C04 (mul), C05 (div/recip), C19 (rem/euclid):
//! exact-oracle monitors. Every judged call is compared with the exact dyadic value.

use crate::ctx::{guard, hx, Ctx};
use crate::exact::{rel_le, rel_ratio, ulp_dy, valid_ref, BigUint, Dy};
use crate::gen::*;
use serde_json::json;
use std::cmp::Ordering;
use twofloat::verif_hooks::from_raw;
use twofloat::TwoFloat;

pub type W = (f64, f64);

#[inline]
pub fn t(w: W) -> TwoFloat {
    from_raw(w.0, w.1)
}
#[inline]
pub fn w(x: TwoFloat) -> W {
    (x.hi(), x.lo())
}
pub fn ins2(a: W, b: W) -> [u64; 4] {
    [hx(a.0), hx(a.1), hx(b.0), hx(b.1)]
}
pub fn ins_tf(a: W, f: f64) -> [u64; 3] {
    [hx(a.0), hx(a.1), hx(f)]
}
pub fn outs(r: W) -> [u64; 2] {
    [hx(r.0), hx(r.1)]
}
pub fn dy(w: W) -> Dy {
    Dy::from_tf(w.0, w.1)
}
pub fn finite(w: W) -> bool {
    w.0.is_finite() && w.1.is_finite()
}

/// Judge `r` against exact target `tv` with bound p * 2^-q relative. Returns err/bound.
pub fn judge_rel(
    c: &mut Ctx,
    op: &'static str,
    bound: &'static str,
    ins: &[u64],
    res: Result<W, String>,
    tv: &Dy,
    p: u64,
    q: i64,
) -> f64 {
    match res {
        Err(msg) => {
            c.panics += 1;
            c.viol(op, "panic", ins, &[], msg);
            f64::INFINITY
        }
        Ok(r) => {
            if !finite(r) {
                c.viol(op, "nonfinite", ins, &outs(r), format!("result has a non-finite word; bound {bound}"));
                return f64::INFINITY;
            }
            let rv = dy(r);
            let ratio = rel_ratio(&rv, tv, p, q);
            c.xsample("rel", op, p, q, ins, &outs(r), rel_le(&rv, tv, p, q));
            if !rel_le(&rv, tv, p, q) {
                c.viol(
                    op,
                    "accuracy",
                    ins,
                    &outs(r),
                    format!("|r-t| exceeds {bound}*|t|: err/bound = {ratio:.4e}, log2|t| = {:.2}", tv.log2_approx()),
                );
            }
            c.ratio(op, bound, ratio, ins);
            ratio
        }
    }
}

/// Judge exact equality of values (either zero sign accepted).
pub fn judge_exact(c: &mut Ctx, op: &'static str, what: &'static str, ins: &[u64], res: Result<W, String>, tv: &Dy) {
    match res {
        Err(msg) => {
            c.panics += 1;
            c.viol(op, "panic", ins, &[], msg);
        }
        Ok(r) => {
            if !finite(r) || !dy(r).eq(tv) {
                c.viol(op, "exact", ins, &outs(r), format!("{what}: result is not exactly the required value"));
            }
        }
    }
}

/// Pool of earlier results fed back as operands (values reachable only through chains of operations).
pub struct Pool {
    v: Vec<W>,
    emin: i64,
    emax: i64,
}
impl Pool {
    pub fn new(emin: i64, emax: i64) -> Self {
        Pool { v: Vec::new(), emin, emax }
    }
    pub fn offer(&mut self, r: &mut Rng, x: W) {
        if x.0 != 0.0 && valid_ref(x.0, x.1) && exp_of(x.0) >= self.emin && exp_of(x.0) <= self.emax {
            if self.v.len() < 64 {
                self.v.push(x);
            } else {
                let k = r.below(64) as usize;
                self.v[k] = x;
            }
        }
    }
    pub fn pick(&self, r: &mut Rng) -> Option<W> {
        if self.v.is_empty() {
            None
        } else {
            Some(self.v[r.below(self.v.len() as u64) as usize])
        }
    }
}

struct Climber {
    pool: Vec<(f64, W, W)>,
}
impl Climber {
    fn new() -> Self {
        Climber { pool: Vec::new() }
    }
    fn offer(&mut self, ratio: f64, a: W, b: W) {
        if !ratio.is_finite() {
            return;
        }
        if self.pool.len() < 32 {
            self.pool.push((ratio, a, b));
        } else {
            let (mi, mv) = self
                .pool
                .iter()
                .enumerate()
                .fold((0, f64::INFINITY), |acc, (i, e)| if e.0 < acc.1 { (i, e.0) } else { acc });
            if ratio > mv {
                self.pool[mi] = (ratio, a, b);
            }
        }
    }
}

fn zero_or(r: &mut Rng, x: W) -> W {
    if r.chance(1, 60) {
        (if r.coin() { 0.0 } else { -0.0 }, 0.0)
    } else {
        x
    }
}

// ------------------------------------------------------------------------------------------
// C02
// ------------------------------------------------------------------------------------------

fn c02_f64(r: &mut Rng) -> f64 {
    // finite, |x| < 2^1023
    loop {
        let x = f64_finite(r);
        if x.abs() < pow2(1023) {
            return x;
        }
    }
}

fn c02_related(r: &mut Rng, a: f64) -> f64 {
    let b = match r.below(12) {
        0 => a,
        1 => -a,
        2 => -step(a, r.range(-4, 4)),
        3 => step(a, r.range(-4, 4)),
        4 => {
            // far apart
            let e = (exp_of(a) + if r.coin() { 1 } else { -1 } * r.range(54, 1500)).clamp(-1074, 1022);
            if e < -1022 {
                f64::from_bits((1u64 << (e + 1074)) | (r.next() & ((1u64 << (e + 1074)) - 1))) * if r.coin() { 1.0 } else { -1.0 }
            } else {
                mk(r.coin(), e, mant_any(r))
            }
        }
        5 => {
            // b around half an ulp of a (rounding ties in a+b)
            let e = (ulp_exp(a) - 1 + r.range(-1, 1)).clamp(-1074, 1022);
            let m = pk!(r, [0u64, 1, MANT_MASK]);
            if e < -1022 {
                f64::from_bits(1u64 << (e + 1074))
            } else {
                mk(r.coin(), e, m)
            }
        }
        6 => mk(r.coin(), (exp_of(a) + r.range(-2, 2)).clamp(-1022, 1022), mant_any(r)),
        7 => {
            // ratio within a few ulps of 2^k (exactly at / just outside the Sterbenz range)
            let k = pk!(r, [-2i64, -1, -1, 1, 1, 2]);
            let v = step(a * pow2(k), r.range(-3, 3));
            if r.coin() { v } else { -v }
        }
        _ => c02_f64(r),
    };
    if b.is_finite() && b.abs() < pow2(1023) {
        b
    } else {
        c02_f64(r)
    }
}

pub fn c02_add_sub(c: &mut Ctx, a: f64, b: f64) {
    let ins = [hx(a), hx(b)];
    let (da, db) = (Dy::from_f64(a), Dy::from_f64(b));
    for (op, sub) in [("new_add", false), ("new_sub", true)] {
        let tv = if sub { da.sub(&db) } else { da.add(&db) };
        c.note(op, &ins, a != 0.0 && b != 0.0 && !tv.is_zero());
        let res = guard(|| w(if sub { TwoFloat::new_sub(a, b) } else { TwoFloat::new_add(a, b) }));
        match res {
            Err(m) => {
                c.panics += 1;
                c.viol(op, "panic", &ins, &[], m)
            }
            Ok(r) => {
                let want_hi = tv.to_f64_rn();
                if !finite(r) {
                    c.viol(op, "nonfinite", &ins, &outs(r), "non-finite word".into());
                } else if r.0 != want_hi {
                    c.viol(op, "hi_not_rn", &ins, &outs(r), format!("hi != RN(a±b) = {want_hi:e}"));
                } else if !dy(r).eq(&tv) {
                    c.viol(op, "not_error_free", &ins, &outs(r), "hi + lo != a ± b exactly".into());
                }
                c.sample(op, || json!({"a": a, "b": b, "hi": r.0, "lo": r.1}));
            }
        }
    }
}

pub fn c02_mul(c: &mut Ctx, a: f64, b: f64) {
    let ins = [hx(a), hx(b)];
    let tv = Dy::from_f64(a).mul(&Dy::from_f64(b));
    let in_window = tv.is_zero() || (tv.abs().cmp(&Dy::pow2(-960)) != Ordering::Less && tv.abs().lt(&Dy::pow2(1023)));
    if !in_window {
        return;
    }
    let op = "new_mul";
    c.note(op, &ins, !tv.is_zero());
    match guard(|| w(TwoFloat::new_mul(a, b))) {
        Err(m) => {
            c.panics += 1;
            c.viol(op, "panic", &ins, &[], m)
        }
        Ok(r) => {
            let want_hi = tv.to_f64_rn();
            if !finite(r) {
                c.viol(op, "nonfinite", &ins, &outs(r), "non-finite word".into());
            } else if r.0 != want_hi {
                c.viol(op, "hi_not_rn", &ins, &outs(r), format!("hi != RN(a*b) = {want_hi:e}"));
            } else if !dy(r).eq(&tv) {
                c.viol(op, "not_error_free", &ins, &outs(r), "hi + lo != a * b exactly".into());
            }
            c.sample(op, || json!({"a": a, "b": b, "hi": r.0, "lo": r.1}));
        }
    }
}

pub fn c02_div(c: &mut Ctx, a: f64, b: f64) -> f64 {
    let ins = [hx(a), hx(b)];
    let op = "new_div";
    c.note(op, &ins, a.abs() != b.abs());
    let (da, db) = (Dy::from_f64(a), Dy::from_f64(b));
    match guard(|| w(TwoFloat::new_div(a, b))) {
        Err(m) => {
            c.panics += 1;
            c.viol(op, "panic", &ins, &[], m);
            f64::INFINITY
        }
        Ok(r) => {
            if !finite(r) {
                c.viol(op, "nonfinite", &ins, &outs(r), "non-finite word".into());
                return f64::INFINITY;
            }
            // hi within one ulp of a/b  <=>  |hi*b - a| <= ulp(hi)*|b|
            let e1 = Dy::from_f64(r.0).mul(&db).sub(&da).abs();
            if !e1.le(&ulp_dy(r.0).mul(&db.abs())) {
                c.viol(op, "hi_not_within_ulp", &ins, &outs(r), "|hi*b - a| > ulp(hi)*|b|".into());
            }
            // |(hi+lo)*b - a| * 2^106 <= 3|a|
            let e2 = dy(r).mul(&db).sub(&da).abs().mul_pow2(106);
            let bd = da.abs().mul_u64(3);
            let ratio = e2.ratio_f64(&bd);
            if !e2.le(&bd) {
                c.viol(op, "accuracy", &ins, &outs(r), format!("|(hi+lo)*b - a| > 3*2^-106*|a|: err/bound = {ratio:.4e}"));
            }
            c.ratio(op, "3*2^-106", ratio, &ins);
            c.sample(op, || json!({"a": a, "b": b, "hi": r.0, "lo": r.1, "err_over_bound": ratio}));
            ratio
        }
    }
}

pub fn c02_from(c: &mut Ctx, a: f64) {
    let ins = [hx(a)];
    c.note("from_f64", &ins, a != 0.0);
    let r1 = guard(|| w(TwoFloat::from(a)));
    let r2 = guard(|| w(TwoFloat::from_f64(a)));
    let r3: Result<W, String> = guard(|| w(<f64 as Into<TwoFloat>>::into(a)));
    for (nm, r) in [("From<f64>", r1), ("from_f64", r2), ("Into<TwoFloat>", r3)] {
        match r {
            Ok(r) if hx(r.0) == hx(a) && r.1 == 0.0 => {}
            Ok(r) => c.viol("from_f64", "exact", &ins, &outs(r), format!("{nm}: expected (a, 0)")),
            Err(m) => c.viol("from_f64", "panic", &ins, &[], m),
        }
    }
    // f32 embedding
    let f = a as f32;
    if f.is_finite() {
        let ins = [f.to_bits() as u64];
        c.note("from_f32", &ins, f != 0.0);
        match guard(|| w(TwoFloat::from(f))) {
            Ok(r) if hx(r.0) == hx(f as f64) && r.1 == 0.0 => {}
            Ok(r) => c.viol("from_f32", "exact", &ins, &outs(r), "expected (a as f64, 0)".into()),
            Err(m) => c.viol("from_f32", "panic", &ins, &[], m),
        }
    }
}

/// Systematic sweep: single-word operands with nb1 / nb2 significant bits whose leading bits are
/// `gap` binades apart, for every (nb1, nb2, gap): where "the result is exact" fast paths are off by one.
pub fn short_sig_sweep(c: &mut Ctx, mut f: impl FnMut(&mut Ctx, f64, f64)) {
    let mut idx = 0u64;
    for nb1 in 1..=30u32 {
        for nb2 in 1..=30u32 {
            for gap in 0..=64i64 {
                idx += 1;
                if idx % c.nshards != c.shard {
                    continue;
                }
                let e1 = c.rng.range(-300, 300);
                for pat in 0..3 {
                    let m = |r: &mut Rng, nb: u32| -> f64 {
                        let top = 1u64 << (nb - 1);
                        (match pat {
                            0 => (1u64 << nb) - 1,
                            1 => top | 1,
                            _ => top | (r.next() & (top - 1)) | 1,
                        }) as f64
                    };
                    let x1 = m(&mut c.rng, nb1) * pow2(e1 - (nb1 as i64 - 1));
                    let x2 = m(&mut c.rng, nb2) * pow2(e1 - gap - (nb2 as i64 - 1));
                    let sg = if c.rng.coin() { 1.0 } else { -1.0 };
                    f(c, x1, sg * x2);
                    f(c, sg * x2, x1);
                }
            }
        }
    }
    c.count("short_significand_sweep_done");
}

pub fn c02(c: &mut Ctx) {
    short_sig_sweep(c, |c, x, y| {
        c02_add_sub(c, x, y);
        c02_mul(c, x, y);
        if x != 0.0 && y != 0.0 && x.abs() >= pow2(-480) && x.abs() <= pow2(480) && y.abs() >= pow2(-480) && y.abs() <= pow2(480) {
            c02_div(c, x, y);
        }
    });
    let n = c.budget(8_000_000, 800_000_000) / 5;
    let mut best: Vec<(f64, f64, f64)> = Vec::new();
    for _ in 0..n {
        let a = c02_f64(&mut c.rng);
        let b = c02_related(&mut c.rng, a);
        c02_add_sub(c, a, b);
        // product inside the admissible window
        let ea = exp_of(a).max(-1074);
        let mut r = c.rng.clone();
        let (x, y) = if a == 0.0 || r.chance(1, 30) {
            (a, if r.coin() { 0.0 } else { b })
        } else {
            let lo = (-960 - ea).clamp(-1074, 1023);
            let hi = (1022 - ea).clamp(-1074, 1023);
            let eb = match r.below(6) {
                0 => lo,
                1 => lo + 1,
                2 => hi,
                3 => hi - 1,
                _ => r.range(lo.min(hi), hi.max(lo)),
            };
            let y = if eb < -1022 {
                let lead = 1u64 << (eb + 1074).max(0);
                f64::from_bits(lead | (r.next() & (lead - 1)))
            } else {
                mk(r.coin(), eb, mant_any(&mut r))
            };
            (a, y)
        };
        c.rng = r;
        if c.rng.coin() {
            c02_mul(c, x, y);
        } else {
            c02_mul(c, y, x);
        }
        // products that equal a "first non-representable integer" exactly, and short-significand factors
        if c.rng.chance(1, 8) {
            let n = boundary_int(&mut c.rng);
            if let Some((p1, q1)) = small_factor(&mut c.rng, n) {
                if q1 < (1u128 << 53) {
                    let sc = pow2(c.rng.range(-200, 200));
                    c02_mul(c, p1 as f64 * sc, q1 as f64);
                    c02_mul(c, -(q1 as f64), p1 as f64 * sc);
                    c.count("boundary_integer_products");
                }
            }
            let (e1, e2) = (c.rng.range(-300, 300), c.rng.range(-300, 300));
            let (n1, n2) = (c.rng.range(20, 30) as u32, c.rng.range(20, 30) as u32);
            let x1 = short_sig(&mut c.rng, n1, e1);
            let x2 = short_sig(&mut c.rng, n2, e2);
            c02_mul(c, x1, x2);
            c02_add_sub(c, x1, short_sig(&mut c.rng.clone(), n2, e1 + (e2 % 30)));
        }
        // division
        let p = f64_in(&mut c.rng, -480, 480);
        let q = match c.rng.below(6) {
            0 => p,
            1 => step(p, c.rng.range(-3, 3)),
            2 => mk(c.rng.coin(), c.rng.range(-480, 480), 0),
            _ => f64_in(&mut c.rng, -480, 480),
        };
        let inr = |x: f64| x.abs() >= pow2(-480) && x.abs() <= pow2(480);
        if inr(p) && inr(q) && c.rng.chance(1, 4) {
            // the same divisor several times in a row (state carried from one call to the next must not matter)
            for _ in 0..3 {
                let p3 = f64_in(&mut c.rng, -480, 480);
                if inr(p3) {
                    c02_div(c, p3, q);
                }
            }
            c.count("repeated_divisor_sequences");
        }
        if inr(p) && inr(q) {
            let ratio = c02_div(c, p, q);
            if ratio.is_finite() {
                best.push((ratio, p, q));
                if best.len() > 64 {
                    best.sort_by(|x, y| y.0.partial_cmp(&x.0).unwrap());
                    best.truncate(32);
                }
            }
        }
        c02_from(c, a);
    }
    // hill-climb on new_div
    let m = n / 4;
    for _ in 0..m {
        if best.is_empty() {
            break;
        }
        let i = c.rng.below(best.len() as u64) as usize;
        let (_, p, q) = best[i];
        let (p2, q2) = match c.rng.below(3) {
            0 => (step(p, c.rng.range(-3, 3)), q),
            1 => (p, step(q, c.rng.range(-3, 3))),
            _ => (f64::from_bits(p.to_bits() ^ (1 << c.rng.below(52))), q),
        };
        let inr = |x: f64| x.abs() >= pow2(-480) && x.abs() <= pow2(480);
        if !(inr(p2) && inr(q2)) {
            continue;
        }
        let ratio = c02_div(c, p2, q2);
        if ratio.is_finite() {
            let (mi, mv) = best.iter().enumerate().fold((0, f64::INFINITY), |acc, (i, e)| if e.0 < acc.1 { (i, e.0) } else { acc });
            if ratio > mv {
                best[mi] = (ratio, p2, q2);
            }
        }
    }
}

// ------------------------------------------------------------------------------------------
// C03
// ------------------------------------------------------------------------------------------

const P_DW: u64 = 3 * (1u64 << 53) + 13; // (3*2^53 + 13) * 2^-159 = 3u^2 + 13u^3

pub fn c03_tt(c: &mut Ctx, a: W, b: W) -> f64 {
    let ins = ins2(a, b);
    let (da, db) = (dy(a), dy(b));
    let sum = da.add(&db);
    let dif = da.sub(&db);
    let nt = a.0 != 0.0 && b.0 != 0.0;
    let (ta, tb) = (t(a), t(b));
    let mut worst = 0.0f64;
    c.note("add/TF,TF", &ins, nt);
    worst = worst.max(judge_rel(c, "add/TF,TF", "3u^2+13u^3", &ins, guard(|| w(ta + tb)), &sum, P_DW, 159));
    c.note("add_assign/TF,TF", &ins, nt);
    judge_rel(
        c,
        "add_assign/TF,TF",
        "3u^2+13u^3",
        &ins,
        guard(|| {
            let mut x = ta;
            x += tb;
            w(x)
        }),
        &sum,
        P_DW,
        159,
    );
    c.note("sub/TF,TF", &ins, nt);
    worst = worst.max(judge_rel(c, "sub/TF,TF", "3u^2+13u^3", &ins, guard(|| w(ta - tb)), &dif, P_DW, 159));
    c.note("sub_assign/TF,TF", &ins, nt);
    judge_rel(
        c,
        "sub_assign/TF,TF",
        "3u^2+13u^3",
        &ins,
        guard(|| {
            let mut x = ta;
            x -= tb;
            w(x)
        }),
        &dif,
        P_DW,
        159,
    );
    if hx(a.0) == hx(b.0) && hx(a.1) == hx(b.1) {
        c.note("add/&x,&x", &ins, nt);
        judge_rel(c, "add/&x,&x", "3u^2+13u^3", &ins, guard(|| w(&ta + &ta)), &sum, P_DW, 159);
        judge_rel(c, "sub/&x,&x", "3u^2+13u^3", &ins, guard(|| w(&ta - &ta)), &dif, P_DW, 159);
    }
    c.sample("add/TF,TF", || {
        let r = w(ta + tb);
        json!({"a": [a.0, a.1], "b": [b.0, b.1], "r": [r.0, r.1]})
    });
    worst
}

pub fn c03_tf(c: &mut Ctx, a: W, f: f64) -> f64 {
    let ins = ins_tf(a, f);
    let (da, df) = (dy(a), Dy::from_f64(f));
    let sum = da.add(&df);
    let dif = da.sub(&df);
    let rdif = df.sub(&da);
    let nt = a.0 != 0.0 && f != 0.0;
    let ta = t(a);
    let mut worst = 0.0f64;
    c.note("add/TF,f64", &ins, nt);
    worst = worst.max(judge_rel(c, "add/TF,f64", "2u^2", &ins, guard(|| w(ta + f)), &sum, 2, 106));
    c.note("add/f64,TF", &ins, nt);
    worst = worst.max(judge_rel(c, "add/f64,TF", "2u^2", &ins, guard(|| w(f + ta)), &sum, 2, 106));
    c.note("sub/TF,f64", &ins, nt);
    worst = worst.max(judge_rel(c, "sub/TF,f64", "2u^2", &ins, guard(|| w(ta - f)), &dif, 2, 106));
    c.note("sub/f64,TF", &ins, nt);
    worst = worst.max(judge_rel(c, "sub/f64,TF", "2u^2", &ins, guard(|| w(f - ta)), &rdif, 2, 106));
    c.note("add_assign/TF,f64", &ins, nt);
    judge_rel(
        c,
        "add_assign/TF,f64",
        "2u^2",
        &ins,
        guard(|| {
            let mut x = ta;
            x += f;
            w(x)
        }),
        &sum,
        2,
        106,
    );
    c.note("sub_assign/TF,f64", &ins, nt);
    judge_rel(
        c,
        "sub_assign/TF,f64",
        "2u^2",
        &ins,
        guard(|| {
            let mut x = ta;
            x -= f;
            w(x)
        }),
        &dif,
        2,
        106,
    );
    worst
}

fn bits_eq(a: W, b: W) -> bool {
    let n = |x: f64| if x.is_nan() { 0x7ff8_0000_0000_0000 } else { x.to_bits() };
    n(a.0) == n(b.0) && n(a.1) == n(b.1)
}

pub fn c03_sum(c: &mut Ctx) {
    let len = match c.rng.below(16) {
        0 => 0,
        1 => 1,
        2 => 2,
        3 => c.rng.range(200, 1300),
        _ => c.rng.range(3, 64),
    } as usize;
    let mode = c.rng.below(4);
    let mut v: Vec<W> = Vec::with_capacity(len);
    for i in 0..len {
        let x = match mode {
            0 => tf_in(&mut c.rng, -1000, 1000),
            1 if i > 0 && c.rng.coin() => {
                // cancelling run
                let p = v[i - 1];
                (-p.0, -p.1)
            }
            2 if i > 0 => tf_related(&mut c.rng.clone(), v[i - 1], -1000, 1000, 3 + c.rng.below(4)),
            _ => tf_in(&mut c.rng, -60, 60),
        };
        v.push(x);
    }
    let tfs: Vec<TwoFloat> = v.iter().map(|&x| t(x)).collect();
    let fs: Vec<f64> = v.iter().map(|x| x.0).collect();
    let mut ins: Vec<u64> = Vec::new();
    for x in &v {
        ins.push(hx(x.0));
        ins.push(hx(x.1));
    }
    c.note("sum", &ins, len >= 2);
    // left folds with + from zero
    let fold_tf = guard(|| {
        let mut acc = TwoFloat::from(0.0);
        for x in &tfs {
            acc = acc + *x;
        }
        w(acc)
    });
    let fold_f = guard(|| {
        let mut acc = TwoFloat::from(0.0);
        for x in &fs {
            acc = acc + *x;
        }
        w(acc)
    });
    let s1 = guard(|| w(tfs.iter().copied().sum::<TwoFloat>()));
    let s2 = guard(|| w(tfs.iter().sum::<TwoFloat>()));
    let s3 = guard(|| w(fs.iter().copied().sum::<TwoFloat>()));
    let s4 = guard(|| w(fs.iter().sum::<TwoFloat>()));
    // iterator adaptors with different size hints must not change the result
    let s5 = guard(|| w(tfs.iter().copied().filter(|_| true).sum::<TwoFloat>()));
    let s6 = guard(|| w(tfs.iter().take(len).chain(tfs.iter().skip(len)).sum::<TwoFloat>()));
    let s7 = guard(|| w(fs.iter().copied().map(|x| x).skip(0).sum::<TwoFloat>()));
    let rev_fold = guard(|| {
        let mut acc = TwoFloat::from(0.0);
        for x in tfs.iter().rev() {
            acc = acc + *x;
        }
        w(acc)
    });
    let s8 = guard(|| w(tfs.iter().rev().sum::<TwoFloat>()));
    for (nm, s, f) in [
        ("Sum over filter()", &s5, &fold_tf),
        ("Sum over take().chain(skip())", &s6, &fold_tf),
        ("Sum<f64> over map().skip(0)", &s7, &fold_f),
        ("Sum over rev()", &s8, &rev_fold),
        ("Sum<TwoFloat>", &s1, &fold_tf),
        ("Sum<&TwoFloat>", &s2, &fold_tf),
        ("Sum<f64>", &s3, &fold_f),
        ("Sum<&f64>", &s4, &fold_f),
    ] {
        match (s, f) {
            (Ok(s), Ok(f)) if bits_eq(*s, *f) => {}
            (Ok(s), Ok(f)) => c.viol("sum", "sum_ne_fold", &ins, &[hx(s.0), hx(s.1), hx(f.0), hx(f.1)], format!("{nm} differs from the left fold with +")),
            (Err(m), _) | (_, Err(m)) => c.viol("sum", "panic", &ins, &[], format!("{nm}: {m}")),
        }
    }
    // and the fold itself obeys the per-step bound: checked by judging each partial step
    if let Ok(_) = fold_tf {
        let mut acc = (0.0, 0.0);
        for x in &v {
            if acc.0 == 0.0 || (exp_of(acc.0) >= -1000 && exp_of(acc.0) <= 1000) {
                if valid_ref(acc.0, acc.1) {
                    let ins = ins2(acc, *x);
                    let sum = dy(acc).add(&dy(*x));
                    c.note("sum_step", &ins, acc.0 != 0.0);
                    judge_rel(c, "sum_step", "3u^2+13u^3", &ins, guard(|| w(t(acc) + t(*x))), &sum, P_DW, 159);
                }
            }
            acc = w(t(acc) + t(*x));
            if !finite(acc) {
                break;
            }
        }
    }
}

pub fn c03(c: &mut Ctx) {
    short_sig_sweep(c, |c, x, y| {
        c03_tt(c, (x, 0.0), (y, 0.0));
        c03_tf(c, (x, 0.0), y);
    });
    let n = c.budget(10_000_000, 1_000_000_000) / 12;
    let mut cl_tt = Climber::new();
    let mut cl_tf = Climber::new();
    let mut pool = Pool::new(-1000, 999);
    for i in 0..n {
        let (mut a, mut b, rel) = tf_pair(&mut c.rng, -1000, 1000);
        // a quarter of the operands are results of earlier operations of this run
        if i % 4 == 3 {
            if let Some(x) = pool.pick(&mut c.rng) {
                a = x;
            }
            if c.rng.coin() {
                if let Some(x) = pool.pick(&mut c.rng) {
                    b = x;
                }
            }
            c.count("chained_operand_cases");
        }
        if i % 4 >= 2 {
            let k = c.rng.below(6);
            let res = guard(|| w(match k {
                0 => t(a) + t(b),
                1 => t(a) - t(b),
                2 => t(a) * t(b),
                3 => t(a) / t(b),
                4 => t(a) * 0.1,
                #[cfg(feature = "math")]
                _ => (t(a) * t(a) + t(b)).sqrt(),
                #[cfg(not(feature = "math"))]
                _ => t(a) * t(a) + t(b),
            }));
            if let Ok(x) = res {
                pool.offer(&mut c.rng, x);
            }
        }
        let a = zero_or(&mut c.rng, a);
        if i % 8 == 5 {
            // consecutive calls sharing one operand (sequence / state dependence)
            for _ in 0..2 {
                let a2 = tf_in(&mut c.rng, -1000, 999);
                c03_tt(c, a2, b);
                c03_tt(c, b, a2);
            }
        }
        let r = c03_tt(c, a, b);
        cl_tt.offer(r, a, b);
        if i < 4096 {
            c.cell(format!("rel{rel}"));
        }
        let f = f64_related(&mut c.rng, a, -1000, 1000);
        let r = c03_tf(c, a, f);
        cl_tf.offer(r, a, (f, 0.0));
        if i % 16 == 0 {
            c03_sum(c);
        }
        if i % 8 == 1 {
            // single-word integer operands whose exact sum / difference is the first integer that is
            // not an f64 (2^53 + 1, ...), and short-significand single-word operands a few binades apart
            let n = boundary_int(&mut c.rng);
            if n < (1u128 << 70) {
                let x = (c.rng.next() >> c.rng.range(11, 40)) as u128;
                let (x, y) = (x.min(n - 1), n - x.min(n - 1));
                if x < (1u128 << 53) && y < (1u128 << 53) {
                    let sc = pow2(c.rng.range(-300, 300));
                    let (fx, fy) = (x as f64 * sc, y as f64 * sc);
                    c03_tt(c, (fx, 0.0), (fy, 0.0));
                    c03_tt(c, (fx, 0.0), (-fy, 0.0));
                    c03_tf(c, (fx, 0.0), fy);
                    c03_tf(c, (-fx, 0.0), fy);
                    c03_tf(c, (fy, 0.0), -fx);
                    c.count("boundary_integer_sums");
                }
            }
            let e1 = c.rng.range(-500, 500);
            let gap = c.rng.range(0, 40);
            let (n1, n2) = (c.rng.range(20, 30) as u32, c.rng.range(20, 30) as u32);
            let x1 = short_sig(&mut c.rng, n1, e1);
            let x2 = short_sig(&mut c.rng, n2, e1 - gap);
            c03_tt(c, (x1, 0.0), (x2, 0.0));
            c03_tt(c, (x2, 0.0), (x1, 0.0));
            c03_tf(c, (x1, 0.0), x2);
            c03_tf(c, (x2, 0.0), x1);
        }
    }
    // deterministic cancellation sweep: b = -(a with the low word moved), every depth
    for k in 0..=110i64 {
        for _ in 0..(c.budget(20, 2000)) {
            let a = tf_in(&mut c.rng, -900, 900);
            // build b = -a * (1 + 2^-k) approximately, as a valid TwoFloat near -a
            let bh;
            let bl;
            if k <= 52 {
                bh = -(a.0 + a.0 * pow2(-k));
                let (_, l, _) = tf_with_hi(&mut c.rng, bh);
                bl = l;
            } else {
                bh = -a.0;
                let d = a.0.abs() * pow2(-k);
                let cand = -a.1 + if c.rng.coin() { d } else { -d };
                bl = if valid_ref(bh, cand) { cand } else { -a.1 };
            }
            let b = (bh, bl);
            if !valid_ref(b.0, b.1) || !b.0.is_finite() {
                continue;
            }
            let r = c03_tt(c, a, b);
            cl_tt.offer(r, a, b);
            c.count("cancellation_depth_cases");
        }
    }
    // hill-climbing stress search from the worst cases seen
    let m = n;
    for _ in 0..m {
        if !cl_tt.pool.is_empty() {
            let i = c.rng.below(cl_tt.pool.len() as u64) as usize;
            let (_, a, b) = cl_tt.pool[i];
            let (a2, b2) = if c.rng.coin() { (tf_mutate(&mut c.rng, a, -1000, 1000), b) } else { (a, tf_mutate(&mut c.rng, b, -1000, 1000)) };
            let r = c03_tt(c, a2, b2);
            cl_tt.offer(r, a2, b2);
        }
        if !cl_tf.pool.is_empty() {
            let i = c.rng.below(cl_tf.pool.len() as u64) as usize;
            let (_, a, b) = cl_tf.pool[i];
            let (a2, f2) = if c.rng.coin() { (tf_mutate(&mut c.rng, a, -1000, 1000), b.0) } else { (a, step(b.0, c.rng.range(-3, 3))) };
            if f2 != 0.0 && (exp_of(f2) < -1000 || exp_of(f2) > 1000) {
                continue;
            }
            let r = c03_tf(c, a2, f2);
            cl_tf.offer(r, a2, (f2, 0.0));
        }
        c.count("stress_steps");
    }
}

// ------------------------------------------------------------------------------------------
// C04
// ------------------------------------------------------------------------------------------

pub fn c04_tt(c: &mut Ctx, a: W, b: W) -> f64 {
    let ins = ins2(a, b);
    let tv = dy(a).mul(&dy(b));
    let nt = a.0 != 0.0 && b.0 != 0.0 && (a.1 != 0.0 || b.1 != 0.0);
    let (ta, tb) = (t(a), t(b));
    c.note("mul/TF,TF", &ins, nt);
    let r = judge_rel(c, "mul/TF,TF", "5u^2", &ins, guard(|| w(ta * tb)), &tv, 5, 106);
    c.note("mul_assign/TF,TF", &ins, nt);
    judge_rel(
        c,
        "mul_assign/TF,TF",
        "5u^2",
        &ins,
        guard(|| {
            let mut x = ta;
            x *= tb;
            w(x)
        }),
        &tv,
        5,
        106,
    );
    if hx(a.0) == hx(b.0) && hx(a.1) == hx(b.1) {
        // the same object on both sides of a by-reference operator
        c.note("mul/&x,&x", &ins, nt);
        judge_rel(c, "mul/&x,&x", "5u^2", &ins, guard(|| w(&ta * &ta)), &tv, 5, 106);
    }
    c.sample("mul/TF,TF", || {
        let r = w(ta * tb);
        json!({"a": [a.0, a.1], "b": [b.0, b.1], "r": [r.0, r.1]})
    });
    r
}

pub fn c04_tf(c: &mut Ctx, a: W, f: f64) -> f64 {
    let ins = ins_tf(a, f);
    let tv = dy(a).mul(&Dy::from_f64(f));
    let nt = a.0 != 0.0 && f != 0.0;
    let ta = t(a);
    c.note("mul/TF,f64", &ins, nt);
    let r1 = judge_rel(c, "mul/TF,f64", "2u^2", &ins, guard(|| w(ta * f)), &tv, 2, 106);
    c.note("mul/f64,TF", &ins, nt);
    let r2 = judge_rel(c, "mul/f64,TF", "2u^2", &ins, guard(|| w(f * ta)), &tv, 2, 106);
    c.note("mul_assign/TF,f64", &ins, nt);
    judge_rel(
        c,
        "mul_assign/TF,f64",
        "2u^2",
        &ins,
        guard(|| {
            let mut x = ta;
            x *= f;
            w(x)
        }),
        &tv,
        2,
        106,
    );
    r1.max(r2)
}

/// Exact sub-claims: zero factor, +-1, powers of two.
pub fn c04_exact(c: &mut Ctx, a: W) {
    let ta = t(a);
    let da = dy(a);
    let ins1 = [hx(a.0), hx(a.1)];
    for z in [0.0f64, -0.0] {
        c.note("mul/zero", &ins1, true);
        judge_exact(c, "mul/zero", "x*0 (TF,f64)", &ins1, guard(|| w(ta * z)), &Dy::zero());
        judge_exact(c, "mul/zero", "0*x (f64,TF)", &ins1, guard(|| w(z * ta)), &Dy::zero());
        judge_exact(c, "mul/zero", "x*0 (TF,TF)", &ins1, guard(|| w(ta * t((z, 0.0)))), &Dy::zero());
        judge_exact(c, "mul/zero", "0*x (TF,TF)", &ins1, guard(|| w(t((z, 0.0)) * ta)), &Dy::zero());
    }
    for s in [1.0f64, -1.0] {
        let tv = if s > 0.0 { da.clone() } else { da.neg() };
        c.note("mul/one", &ins1, true);
        judge_exact(c, "mul/one", "x*±1 (TF,f64)", &ins1, guard(|| w(ta * s)), &tv);
        judge_exact(c, "mul/one", "±1*x (f64,TF)", &ins1, guard(|| w(s * ta)), &tv);
        judge_exact(c, "mul/one", "x*±1 (TF,TF)", &ins1, guard(|| w(ta * t((s, 0.0)))), &tv);
        judge_exact(c, "mul/one", "±1*x (TF,TF)", &ins1, guard(|| w(t((s, 0.0)) * ta)), &tv);
        judge_exact(
            c,
            "mul/one",
            "x*=±1",
            &ins1,
            guard(|| {
                let mut x = ta;
                x *= s;
                w(x)
            }),
            &tv,
        );
    }
    // power of two, k such that the product's high word stays in range and lo*2^k is 0 or normal
    let k = c.rng.range(-450, 450);
    let p = pow2(k) * if c.rng.coin() { 1.0 } else { -1.0 };
    let scaled_lo_ok = a.1 == 0.0 || exp_of(a.1) + k >= -1022;
    let hi_ok = a.0 == 0.0 || (exp_of(a.0) + k).abs() <= 900;
    if scaled_lo_ok && hi_ok {
        let ins = ins_tf(a, p);
        let tv = da.mul(&Dy::from_f64(p));
        c.note("mul/pow2", &ins, a.1 != 0.0);
        judge_exact(c, "mul/pow2", "x*±2^k (TF,f64)", &ins, guard(|| w(ta * p)), &tv);
        judge_exact(c, "mul/pow2", "±2^k*x (f64,TF)", &ins, guard(|| w(p * ta)), &tv);
        judge_exact(c, "mul/pow2", "x*±2^k (TF,TF)", &ins, guard(|| w(ta * t((p, 0.0)))), &tv);
        judge_exact(c, "mul/pow2", "±2^k*x (TF,TF)", &ins, guard(|| w(t((p, 0.0)) * ta)), &tv);
        judge_exact(
            c,
            "mul/pow2",
            "x*=±2^k (TF)",
            &ins,
            guard(|| {
                let mut x = ta;
                x *= t((p, 0.0));
                w(x)
            }),
            &tv,
        );
    }
}

pub fn c04(c: &mut Ctx) {
    short_sig_sweep(c, |c, x, y| {
        c04_tt(c, (x, 0.0), (y, 0.0));
        c04_tf(c, (x, 0.0), y);
    });
    let n = c.budget(10_000_000, 1_000_000_000) / 8;
    let mut cl_tt = Climber::new();
    let mut cl_tf = Climber::new();
    let mut pool = Pool::new(-450, 449);
    for i in 0..n {
        let (mut a, mut b, rel) = tf_pair(&mut c.rng, -450, 450);
        if i % 4 == 3 {
            if let Some(x) = pool.pick(&mut c.rng) {
                a = x;
            }
            if c.rng.coin() {
                if let Some(x) = pool.pick(&mut c.rng) {
                    b = x;
                }
            }
            c.count("chained_operand_cases");
        }
        if i % 4 >= 2 {
            let k = c.rng.below(6);
            let res = guard(|| w(match k {
                0 => t(a) + t(b),
                1 => t(a) - t(b),
                2 => t(a) * t(b),
                3 => t(a) / t(b),
                4 => t(a) * 3.0,
                _ => t(a).recip(),
            }));
            if let Ok(x) = res {
                pool.offer(&mut c.rng, x);
            }
        }
        let a = zero_or(&mut c.rng, a);
        if i % 8 == 5 {
            for _ in 0..2 {
                let a2 = tf_in(&mut c.rng, -450, 449);
                c04_tt(c, a2, b);
                c04_tf(c, a2, b.0);
            }
        }
        let r = c04_tt(c, a, b);
        cl_tt.offer(r, a, b);
        if i < 4096 {
            c.cell(format!("rel{rel}"));
        }
        let f = f64_related(&mut c.rng, a, -450, 450);
        let r = c04_tf(c, a, f);
        cl_tf.offer(r, a, (f, 0.0));
        if i % 4 == 0 {
            c04_exact(c, a);
        }
        if i % 8 == 2 {
            c04_tt(c, a, a);
        }
        if i % 8 == 1 {
            let nn = boundary_int(&mut c.rng);
            if let Some((p1, q1)) = small_factor(&mut c.rng, nn) {
                if q1 < (1u128 << 53) {
                    let sc = pow2(c.rng.range(-200, 200));
                    let (x, y) = (p1 as f64 * sc, q1 as f64);
                    c04_tf(c, (x, 0.0), y);
                    c04_tf(c, (y, 0.0), -x);
                    c04_tt(c, (x, 0.0), (y, 0.0));
                    c04_tt(c, (-y, 0.0), (x, 0.0));
                    c.count("boundary_integer_products");
                }
            }
            let (e1, e2) = (c.rng.range(-200, 200), c.rng.range(-200, 200));
            let (n1, n2) = (c.rng.range(20, 30) as u32, c.rng.range(20, 30) as u32);
            let x1 = short_sig(&mut c.rng, n1, e1);
            let x2 = short_sig(&mut c.rng, n2, e2);
            c04_tt(c, (x1, 0.0), (x2, 0.0));
            c04_tf(c, (x1, 0.0), x2);
            let l1 = lo_class(&mut c.rng, x1, 8);
            if valid_ref(x1, l1) {
                c04_tt(c, (x1, l1), (x2, 0.0));
                c04_tf(c, (x1, l1), x2);
            }
        }
    }
    let m = n;
    for _ in 0..m {
        if !cl_tt.pool.is_empty() {
            let i = c.rng.below(cl_tt.pool.len() as u64) as usize;
            let (_, a, b) = cl_tt.pool[i];
            let (a2, b2) = if c.rng.coin() { (tf_mutate(&mut c.rng, a, -450, 450), b) } else { (a, tf_mutate(&mut c.rng, b, -450, 450)) };
            let r = c04_tt(c, a2, b2);
            cl_tt.offer(r, a2, b2);
        }
        if !cl_tf.pool.is_empty() {
            let i = c.rng.below(cl_tf.pool.len() as u64) as usize;
            let (_, a, b) = cl_tf.pool[i];
            let (a2, f2) = if c.rng.coin() { (tf_mutate(&mut c.rng, a, -450, 450), b.0) } else { (a, step(b.0, c.rng.range(-3, 3))) };
            if f2 == 0.0 || exp_of(f2) < -450 || exp_of(f2) > 450 {
                continue;
            }
            let r = c04_tf(c, a2, f2);
            cl_tf.offer(r, a2, (f2, 0.0));
        }
        c.count("stress_steps");
    }
}

// ------------------------------------------------------------------------------------------
// C05
// ------------------------------------------------------------------------------------------

/// |r*b - a| * 2^106 <= p*|a|  (cross-multiplied relative error of a quotient)
fn judge_quot(c: &mut Ctx, op: &'static str, bound: &'static str, ins: &[u64], res: Result<W, String>, da: &Dy, db: &Dy, p: u64) -> f64 {
    match res {
        Err(m) => {
            c.panics += 1;
            c.viol(op, "panic", ins, &[], m);
            f64::INFINITY
        }
        Ok(r) => {
            if !finite(r) {
                c.viol(op, "nonfinite", ins, &outs(r), "non-finite word".into());
                return f64::INFINITY;
            }
            let e = dy(r).mul(db).sub(da).abs().mul_pow2(106);
            let bd = da.abs().mul_u64(p);
            let ratio = if e.is_zero() { 0.0 } else { e.ratio_f64(&bd) };
            c.xsample("quot", op, p, 106, ins, &outs(r), e.le(&bd));
            if !e.le(&bd) {
                c.viol(op, "accuracy", ins, &outs(r), format!("|r*b - a| > {bound}*|a|: err/bound = {ratio:.4e}"));
            }
            c.ratio(op, bound, ratio, ins);
            ratio
        }
    }
}

pub fn c05_tt(c: &mut Ctx, a: W, b: W) -> f64 {
    let ins = ins2(a, b);
    let (da, db) = (dy(a), dy(b));
    let (ta, tb) = (t(a), t(b));
    let nt = a.0 != 0.0 && !bits_eq(a, b);
    c.note("div/TF,TF", &ins, nt);
    let r = judge_quot(c, "div/TF,TF", "16u^2", &ins, guard(|| w(ta / tb)), &da, &db, 16);
    c.note("div_assign/TF,TF", &ins, nt);
    judge_quot(
        c,
        "div_assign/TF,TF",
        "16u^2",
        &ins,
        guard(|| {
            let mut x = ta;
            x /= tb;
            w(x)
        }),
        &da,
        &db,
        16,
    );
    c.sample("div/TF,TF", || {
        let r = w(ta / tb);
        json!({"a": [a.0, a.1], "b": [b.0, b.1], "r": [r.0, r.1]})
    });
    r
}

pub fn c05_tf(c: &mut Ctx, a: W, f: f64) -> f64 {
    let ins = ins_tf(a, f);
    let (da, df) = (dy(a), Dy::from_f64(f));
    let ta = t(a);
    c.note("div/TF,f64", &ins, a.0 != 0.0);
    let r = judge_quot(c, "div/TF,f64", "3u^2", &ins, guard(|| w(ta / f)), &da, &df, 3);
    c.note("div_assign/TF,f64", &ins, a.0 != 0.0);
    judge_quot(
        c,
        "div_assign/TF,f64",
        "3u^2",
        &ins,
        guard(|| {
            let mut x = ta;
            x /= f;
            w(x)
        }),
        &da,
        &df,
        3,
    );
    r
}

pub fn c05_ft(c: &mut Ctx, f: f64, b: W) -> f64 {
    let ins = [hx(f), hx(b.0), hx(b.1)];
    let (df, db) = (Dy::from_f64(f), dy(b));
    let tb = t(b);
    c.note("div/f64,TF", &ins, f != 0.0);
    let r = judge_quot(c, "div/f64,TF", "16u^2", &ins, guard(|| w(f / tb)), &df, &db, 16);
    if f == 1.0 {
        c.note("recip", &ins, true);
        judge_quot(c, "recip", "16u^2", &ins, guard(|| w(tb.recip())), &df, &db, 16);
    }
    r
}

pub fn c05_exact(c: &mut Ctx, a: W) {
    let ta = t(a);
    let da = dy(a);
    let ins1 = [hx(a.0), hx(a.1)];
    let one = Dy::from_f64(1.0);
    c.note("div/self", &ins1, true);
    judge_exact(c, "div/self", "a/a", &ins1, guard(|| w(ta / ta)), &one);
    judge_exact(
        c,
        "div/self",
        "a/=a",
        &ins1,
        guard(|| {
            let mut x = ta;
            x /= ta;
            w(x)
        }),
        &one,
    );
    if a.1 == 0.0 {
        judge_exact(c, "div/self", "a/a (TF,f64)", &ins1, guard(|| w(ta / a.0)), &one);
        judge_exact(c, "div/self", "a/a (f64,TF)", &ins1, guard(|| w(a.0 / ta)), &one);
    }
    for s in [1.0f64, -1.0] {
        let tv = if s > 0.0 { da.clone() } else { da.neg() };
        c.note("div/one", &ins1, true);
        judge_exact(c, "div/one", "a/±1 (TF,f64)", &ins1, guard(|| w(ta / s)), &tv);
        judge_exact(c, "div/one", "a/±1 (TF,TF)", &ins1, guard(|| w(ta / t((s, 0.0)))), &tv);
        judge_exact(
            c,
            "div/one",
            "a/=±1 (TF)",
            &ins1,
            guard(|| {
                let mut x = ta;
                x /= t((s, 0.0));
                w(x)
            }),
            &tv,
        );
        judge_exact(
            c,
            "div/one",
            "a/=±1 (f64)",
            &ins1,
            guard(|| {
                let mut x = ta;
                x /= s;
                w(x)
            }),
            &tv,
        );
    }
    let k = c.rng.range(-450, 450);
    let p = pow2(k) * if c.rng.coin() { 1.0 } else { -1.0 };
    let scaled_lo_ok = a.1 == 0.0 || exp_of(a.1) - k >= -1022;
    let hi_ok = (exp_of(a.0) - k).abs() <= 900;
    if scaled_lo_ok && hi_ok {
        let ins = ins_tf(a, p);
        let tv = da.mul(&Dy::pow2(-k)).mul(&Dy::from_f64(if p > 0.0 { 1.0 } else { -1.0 }));
        c.note("div/pow2", &ins, a.1 != 0.0);
        judge_exact(c, "div/pow2", "a/±2^k (TF,f64)", &ins, guard(|| w(ta / p)), &tv);
        judge_exact(c, "div/pow2", "a/±2^k (TF,TF)", &ins, guard(|| w(ta / t((p, 0.0)))), &tv);
        judge_exact(
            c,
            "div/pow2",
            "a/=±2^k (TF)",
            &ins,
            guard(|| {
                let mut x = ta;
                x /= t((p, 0.0));
                w(x)
            }),
            &tv,
        );
    }
    // zero numerator
    for z in [0.0f64, -0.0] {
        c.note("div/zero_num", &ins1, true);
        judge_exact(c, "div/zero_num", "0/b (f64,TF)", &ins1, guard(|| w(z / ta)), &Dy::zero());
        judge_exact(c, "div/zero_num", "0/b (TF,TF)", &ins1, guard(|| w(t((z, 0.0)) / ta)), &Dy::zero());
        judge_exact(c, "div/zero_num", "0/b (TF,f64)", &ins1, guard(|| w(t((z, 0.0)) / a.0)), &Dy::zero());
    }
}

pub fn c05(c: &mut Ctx) {
    let n = c.budget(10_000_000, 1_000_000_000) / 8;
    let mut cl_tt = Climber::new();
    let mut cl_tf = Climber::new();
    let mut cl_ft = Climber::new();
    let mut pool = Pool::new(-450, 449);
    for i in 0..n {
        let (mut a, mut b, rel) = tf_pair(&mut c.rng, -450, 450);
        // quotients just above / below powers of two: a = b * 2^k perturbed by a few ulps
        if c.rng.chance(1, 6) {
            let k = c.rng.range(-20, 20);
            let cand = (step(b.0 * pow2(k), c.rng.range(-3, 3)), b.1 * pow2(k));
            if valid_ref(cand.0, cand.1) && exp_of(cand.0).abs() <= 450 {
                a = cand;
            }
        }
        if i % 4 == 3 {
            if let Some(x) = pool.pick(&mut c.rng) {
                a = x;
            }
            if c.rng.coin() {
                if let Some(x) = pool.pick(&mut c.rng) {
                    b = x;
                }
            }
            c.count("chained_operand_cases");
        }
        if b.0 == 0.0 {
            std::mem::swap(&mut a, &mut b);
        }
        if b.0 == 0.0 {
            continue;
        }
        if i % 4 >= 2 {
            let k = c.rng.below(5);
            let res = guard(|| w(match k {
                0 => t(a) + t(b),
                1 => t(a) - t(b),
                2 => t(a) * t(b),
                3 => t(a) / t(b),
                _ => t(b).recip(),
            }));
            if let Ok(x) = res {
                pool.offer(&mut c.rng, x);
            }
        }
        if i % 8 == 5 {
            for _ in 0..2 {
                let a2 = tf_in(&mut c.rng, -450, 449);
                c05_tt(c, a2, b);
                c05_tf(c, a2, b.0);
                c05_ft(c, a2.0, b);
            }
        }
        let r = c05_tt(c, a, b);
        cl_tt.offer(r, a, b);
        if i < 4096 {
            c.cell(format!("rel{rel}"));
        }
        let mut f = f64_related(&mut c.rng, a, -450, 450);
        if f == 0.0 {
            f = 3.0;
        }
        let r = c05_tf(c, a, f);
        cl_tf.offer(r, a, (f, 0.0));
        let g = if c.rng.chance(1, 4) { 1.0 } else { f };
        let r = c05_ft(c, g, b);
        cl_ft.offer(r, (g, 0.0), b);
        if i % 4 == 0 && a.0 != 0.0 {
            c05_exact(c, a);
        }
    }
    let m = n;
    for _ in 0..m {
        if !cl_tt.pool.is_empty() {
            let i = c.rng.below(cl_tt.pool.len() as u64) as usize;
            let (_, a, b) = cl_tt.pool[i];
            let (a2, b2) = if c.rng.coin() { (tf_mutate(&mut c.rng, a, -450, 450), b) } else { (a, tf_mutate(&mut c.rng, b, -450, 450)) };
            if b2.0 != 0.0 {
                let r = c05_tt(c, a2, b2);
                cl_tt.offer(r, a2, b2);
            }
        }
        if !cl_tf.pool.is_empty() {
            let i = c.rng.below(cl_tf.pool.len() as u64) as usize;
            let (_, a, b) = cl_tf.pool[i];
            let (a2, f2) = if c.rng.coin() { (tf_mutate(&mut c.rng, a, -450, 450), b.0) } else { (a, step(b.0, c.rng.range(-3, 3))) };
            if f2 != 0.0 && exp_of(f2) >= -450 && exp_of(f2) <= 450 {
                let r = c05_tf(c, a2, f2);
                cl_tf.offer(r, a2, (f2, 0.0));
            }
        }
        if !cl_ft.pool.is_empty() {
            let i = c.rng.below(cl_ft.pool.len() as u64) as usize;
            let (_, a, b) = cl_ft.pool[i];
            let b2 = tf_mutate(&mut c.rng, b, -450, 450);
            if b2.0 != 0.0 {
                let r = c05_ft(c, a.0, b2);
                cl_ft.offer(r, a, b2);
            }
        }
        c.count("stress_steps");
    }
}

// ------------------------------------------------------------------------------------------
// C19
// ------------------------------------------------------------------------------------------

/// Exact truncated quotient of two non-zero dyadics: (sign, |k| as integer Dy, |q| is near an integer?)
/// near := exists integer m with |a - m*b| * 2^98 <= |a|
fn trunc_quot(da: &Dy, db: &Dy) -> (Dy, bool, bool) {
    let e = da.e.min(db.e);
    let n = da.m.shl((da.e - e) as u64);
    let d = db.m.shl((db.e - e) as u64);
    let (q, rem) = n.divrem(&d);
    let neg = da.neg != db.neg;
    let k = Dy { neg: neg && !q.is_zero(), m: q.clone(), e: 0 };
    // near-integer test on magnitudes: |N - m*D| * 2^98 <= N for m = q or q+1
    let near_lo = rem.shl(98).cmp(&n) != Ordering::Greater; // m = q
    let up = d.sub(&rem); // distance to (q+1)*D
    let near_hi = up.shl(98).cmp(&n) != Ordering::Greater;
    let exact = rem.is_zero();
    let _ = BigUint::zero();
    (k, (near_lo && !q.is_zero()) || near_hi || exact, exact)
}

fn judge_rem(c: &mut Ctx, op: &'static str, ins: &[u64], res: Result<W, String>, da: &Dy, db: &Dy, ks: &[Dy]) -> f64 {
    match res {
        Err(m) => {
            c.panics += 1;
            c.viol(op, "panic", ins, &[], m);
            f64::INFINITY
        }
        Ok(r) => {
            if !finite(r) {
                c.viol(op, "nonfinite", ins, &outs(r), "non-finite word".into());
                return f64::INFINITY;
            }
            let rv = dy(r);
            let mx = if da.cmp_abs(db) == Ordering::Less { db.abs() } else { da.abs() };
            let bd = mx.mul_u64(16);
            let mut best = f64::INFINITY;
            for k in ks {
                let tv = da.sub(&k.mul(db));
                let e = rv.sub(&tv).abs().mul_pow2(106);
                if e.le(&bd) {
                    let ratio = if e.is_zero() { 0.0 } else { e.ratio_f64(&bd) };
                    best = best.min(ratio);
                }
            }
            if !best.is_finite() {
                let tv = da.sub(&ks[0].mul(db));
                let e = rv.sub(&tv).abs().mul_pow2(106);
                let ratio = e.ratio_f64(&bd);
                c.viol(op, "accuracy", ins, &outs(r), format!("not within 16*2^-106*max(|a|,|b|) of a - k*b for any admissible k ({} candidates): err/bound = {ratio:.4e}", ks.len()));
                return ratio;
            }
            c.ratio(op, "16u^2*max(|a|,|b|)", best, ins);
            best
        }
    }
}

pub fn c19_pair(c: &mut Ctx, a: W, b: W) {
    let (da, db) = (dy(a), dy(b));
    if da.is_zero() || db.is_zero() {
        return;
    }
    // |a/b| <= 2^90
    if da.abs().cmp(&db.abs().mul_pow2(90)) == Ordering::Greater {
        return;
    }
    let ins = ins2(a, b);
    let (k, near, exact_int) = trunc_quot(&da, &db);
    let one = Dy::from_f64(1.0);
    let ks: Vec<Dy> = if near { vec![k.clone(), k.add(&one), k.sub(&one)] } else { vec![k.clone()] };
    let (ta, tb) = (t(a), t(b));
    let nt = !bits_eq(a, b);
    if near {
        c.count("near_integer_quotients");
    }
    if exact_int {
        c.count("exact_integer_quotients");
    }
    c.note("rem/TF,TF", &ins, nt);
    judge_rem(c, "rem/TF,TF", &ins, guard(|| w(ta % tb)), &da, &db, &ks);
    judge_rem(c, "rem/&TF,&TF", &ins, guard(|| w(&ta % &tb)), &da, &db, &ks);
    judge_rem(c, "rem/&TF,TF", &ins, guard(|| w(&ta % tb)), &da, &db, &ks);
    judge_rem(c, "rem/TF,&TF", &ins, guard(|| w(ta % &tb)), &da, &db, &ks);
    c.note("rem_assign/TF,TF", &ins, nt);
    judge_rem(
        c,
        "rem_assign/TF,TF",
        &ins,
        guard(|| {
            let mut x = ta;
            x %= tb;
            w(x)
        }),
        &da,
        &db,
        &ks,
    );
    if b.1 == 0.0 {
        c.note("rem/TF,f64", &ins, nt);
        judge_rem(c, "rem/TF,f64", &ins, guard(|| w(ta % b.0)), &da, &db, &ks);
        judge_rem(c, "rem/&TF,&f64", &ins, guard(|| w(&ta % &b.0)), &da, &db, &ks);
        judge_rem(c, "rem/&TF,f64", &ins, guard(|| w(&ta % b.0)), &da, &db, &ks);
        judge_rem(c, "rem/TF,&f64", &ins, guard(|| w(ta % &b.0)), &da, &db, &ks);
        c.note("rem_assign/TF,f64", &ins, nt);
        judge_rem(
            c,
            "rem_assign/TF,f64",
            &ins,
            guard(|| {
                let mut x = ta;
                x %= b.0;
                w(x)
            }),
            &da,
            &db,
            &ks,
        );
    }
    if a.1 == 0.0 {
        c.note("rem/f64,TF", &ins, nt);
        judge_rem(c, "rem/f64,TF", &ins, guard(|| w(a.0 % tb)), &da, &db, &ks);
        judge_rem(c, "rem/&f64,&TF", &ins, guard(|| w(&a.0 % &tb)), &da, &db, &ks);
        judge_rem(c, "rem/&f64,TF", &ins, guard(|| w(&a.0 % tb)), &da, &db, &ks);
        judge_rem(c, "rem/f64,&TF", &ins, guard(|| w(a.0 % &tb)), &da, &db, &ks);
    }
    // Euclidean: e = floor(q) for b > 0, ceil(q) for b < 0
    let qneg = da.neg != db.neg;
    let e0 = if exact_int || !qneg {
        // q >= 0 (or exact): floor(q) = trunc for b>0; ceil(q) = trunc + 1 (if inexact) for b<0
        if exact_int {
            k.clone()
        } else if !db.neg {
            k.clone()
        } else {
            k.add(&one)
        }
    } else {
        // q < 0 inexact: floor = trunc - 1 (b>0); ceil = trunc (b<0)
        if !db.neg {
            k.sub(&one)
        } else {
            k.clone()
        }
    };
    let es: Vec<Dy> = if near { vec![e0.clone(), e0.add(&one), e0.sub(&one)] } else { vec![e0.clone()] };
    c.note("div_euclid", &ins, nt);
    match guard(|| w(ta.div_euclid(tb))) {
        Err(m) => {
            c.panics += 1;
            c.viol("div_euclid", "panic", &ins, &[], m)
        }
        Ok(r) => {
            if !valid_ref(r.0, r.1) {
                c.viol("div_euclid", "invalid", &ins, &outs(r), "result is not a valid TwoFloat".into());
            } else {
                let rv = dy(r);
                if !es.iter().any(|e| rv.eq(e)) {
                    c.viol("div_euclid", "wrong_integer", &ins, &outs(r), format!("expected floor/ceil quotient (near-integer proviso: {near})"));
                }
            }
            c.sample("div_euclid", || json!({"a": [a.0, a.1], "b": [b.0, b.1], "r": [r.0, r.1], "near_integer": near}));
        }
    }
    c.note("rem_euclid", &ins, nt);
    judge_rem(c, "rem_euclid", &ins, guard(|| w(ta.rem_euclid(tb))), &da, &db, &es);
}

/// Integer operands below 2^53: everything exact.
pub fn c19_int(c: &mut Ctx, a: i64, b: i64) {
    if a == 0 || b == 0 {
        return;
    }
    let (fa, fb) = (a as f64, b as f64);
    let (ta, tb) = (TwoFloat::from(fa), TwoFloat::from(fb));
    let ins = [hx(fa), hx(fb)];
    c.note("int/rem", &ins, a.abs() != b.abs());
    let rem = Dy::from_i128((a as i128) % (b as i128));
    let de = Dy::from_i128((a as i128).div_euclid(b as i128));
    let re = Dy::from_i128((a as i128).rem_euclid(b as i128));
    judge_exact(c, "int/rem", "a % b (TF,TF)", &ins, guard(|| w(ta % tb)), &rem);
    judge_exact(c, "int/rem", "a % b (TF,f64)", &ins, guard(|| w(ta % fb)), &rem);
    judge_exact(c, "int/rem", "a % b (f64,TF)", &ins, guard(|| w(fa % tb)), &rem);
    judge_exact(
        c,
        "int/rem",
        "a %= b",
        &ins,
        guard(|| {
            let mut x = ta;
            x %= tb;
            w(x)
        }),
        &rem,
    );
    judge_exact(
        c,
        "int/rem",
        "a %= b (f64)",
        &ins,
        guard(|| {
            let mut x = ta;
            x %= fb;
            w(x)
        }),
        &rem,
    );
    c.note("int/div_euclid", &ins, true);
    judge_exact(c, "int/div_euclid", "div_euclid", &ins, guard(|| w(ta.div_euclid(tb))), &de);
    c.note("int/rem_euclid", &ins, true);
    judge_exact(c, "int/rem_euclid", "rem_euclid", &ins, guard(|| w(ta.rem_euclid(tb))), &re);
}

/// Dense sampling of quotients in the windows just below / above 2^k (k where integer estimates of the
/// quotient change character), with arbitrary fractional parts.
fn c19_quotient_windows(c: &mut Ctx) {
    let n = c.budget(2_400_000, 240_000_000) / 8;
    for _ in 0..n {
        let b = match c.rng.below(3) {
            0 => {
                // mantissas near 1 / near 2
                let h = mk(c.rng.coin(), c.rng.range(-300, 300), if c.rng.coin() { c.rng.next() & 0xffff } else { MANT_MASK - (c.rng.next() & 0xffff) });
                let (h, l, _) = tf_with_hi(&mut c.rng, h);
                (h, l)
            }
            _ => tf_in(&mut c.rng, -300, 300),
        };
        let k = pk!(c.rng, [24i64, 31, 32, 52, 52, 52, 53, 53, 63, 64, 89]);
        let frac = (c.rng.next() >> 11) as f64 * pow2(-53);
        let qi = if c.rng.coin() { pow2(k) * (1.0 - frac * 0.07) } else { pow2(k) * (1.0 + frac * 0.07) };
        let qi = (qi - (qi % 1.0)) * if c.rng.coin() { 1.0 } else { -1.0 };
        // a = b*qi + b*f  with f in [0,1): quotient qi + f (up to rounding), any fractional part
        let f = match c.rng.below(4) {
            0 => 0.75 + 0.25 * (c.rng.next() >> 11) as f64 * pow2(-53),
            1 => 0.25 * (c.rng.next() >> 11) as f64 * pow2(-53),
            _ => (c.rng.next() >> 11) as f64 * pow2(-53),
        };
        let a = w(t(b) * qi + t(b) * f);
        if valid_ref(a.0, a.1) && a.0 != 0.0 && exp_of(a.0).abs() <= 400 {
            c19_pair(c, a, b);
            c.count("quotient_window_cases");
        }
    }
}

pub fn c19(c: &mut Ctx) {
    c19_quotient_windows(c);
    // small-integer grid (deterministic, sharded)
    let g = if c.tier == 0 { 48i64 } else { 256 };
    let mut idx = 0u64;
    for a in -g..=g {
        for b in -g..=g {
            idx += 1;
            if idx % c.nshards == c.shard {
                c19_int(c, a, b);
            }
        }
    }
    let n = c.budget(5_000_000, 300_000_000) / 8;
    for i in 0..n {
        // random integer operands below 2^53
        if i % 4 == 0 {
            let ba = c.rng.below(53);
            let bb = c.rng.below(53);
            let a = (c.rng.next() >> (63 - ba)) as i64 * if c.rng.coin() { 1 } else { -1 };
            let b = (c.rng.next() >> (63 - bb)) as i64 * if c.rng.coin() { 1 } else { -1 };
            c19_int(c, a, b);
            // multiples and near-multiples
            let k = c.rng.range(1, 1 << 20);
            if let Some(p) = b.checked_mul(k) {
                if p.abs() < (1 << 53) {
                    c19_int(c, p, b);
                    let d = c.rng.range(-2, 2);
                    c19_int(c, p + d, b);
                }
            }
        }
        let b = tf_in(&mut c.rng, -400, 400);
        let a = match c.rng.below(8) {
            0 | 1 => {
                // a = k*b (+ few low-word ulps): exact or near-integer quotients
                let k = match c.rng.below(3) {
                    0 => c.rng.range(1, 1000) as f64,
                    1 => (c.rng.next() >> c.rng.range(11, 63)) as f64,
                    _ => pow2(c.rng.range(0, 89)),
                };
                let k = if c.rng.coin() { k } else { -k };
                let p = w(t(b) * k);
                let p = match c.rng.below(4) {
                    0 => p,
                    1 => (p.0, step(p.1, c.rng.range(-3, 3))),
                    2 => (p.0, step(p.1, c.rng.range(-300, 300))),
                    _ => (step(p.0, c.rng.range(-2, 2)), p.1),
                };
                p
            }
            2 => {
                // |q| < 1
                let e = exp_of(b.0) - c.rng.range(1, 60);
                tf_in(&mut c.rng, e.max(-400), e.max(-400))
            }
            3 => {
                // |q| large; half of the time in the window just below / above 2^k for the k where integer
                // estimates of the quotient change character (f32/f64/i32/i64 integer limits)
                if c.rng.coin() {
                    let k = pk!(c.rng, [24i64, 31, 32, 52, 52, 53, 53, 63, 64, 89]);
                    let frac = (c.rng.next() >> 11) as f64 * pow2(-53); // [0,1)
                    let q = if c.rng.coin() { pow2(k) * (1.0 - frac * 0.07) } else { pow2(k) * (1.0 + frac * 0.07) };
                    let q = if c.rng.coin() { q } else { -q };
                    let p = w(t(b) * q);
                    let p = (p.0, step(p.1, c.rng.range(-400, 400)));
                    let d = w(t(b) * ((c.rng.next() >> 11) as f64 * pow2(-53)));
                    let s = w(t(p) + t(d));
                    c.count("quotient_window_cases");
                    if valid_ref(s.0, s.1) { s } else { p }
                } else {
                    let e = exp_of(b.0) + c.rng.range(40, 89);
                    tf_in(&mut c.rng, e.min(400), e.min(400))
                }
            }
            4 => b,
            _ => {
                let e = exp_of(b.0) + c.rng.range(-5, 60);
                let e = e.clamp(-400, 400);
                tf_in(&mut c.rng, e, e)
            }
        };
        if !valid_ref(a.0, a.1) || a.0 == 0.0 || exp_of(a.0).abs() > 400 {
            continue;
        }
        // f64-operand forms need a zero low word on that side
        let (a, b) = match c.rng.below(6) {
            0 => ((a.0, 0.0), b),
            1 => (a, (b.0, 0.0)),
            _ => (a, b),
        };
        c19_pair(c, a, b);
    }
}
