//! C12, C14-C18: elementary functions. `run` mode = in-process sub-claims (panic monitor over the
//! whole valid domain, exact points, saturation / domain errors, bit-identity clauses);
//! `emit` mode = stratified argument sweeps logged for the offline mpmath checker.

use crate::ctx::{guard, hx, Ctx};
use crate::emit::Emit;
use crate::exact::{valid_ref, Dy};
use crate::gen::*;
use crate::mon_arith::{dy, finite, outs, t, w, W};
use num_traits::{float::FloatCore, Bounded, FloatConst};
use serde_json::json;
use twofloat::verif_hooks::from_raw;
use twofloat::{consts, TwoFloat};

fn beq(a: W, b: W) -> bool {
    let n = |x: f64| if x.is_nan() { 0x7ff8_0000_0000_0000 } else { x.to_bits() };
    n(a.0) == n(b.0) && n(a.1) == n(b.1)
}
fn tf1(a: W) -> [u64; 2] {
    [hx(a.0), hx(a.1)]
}
fn v2(r: TwoFloat) -> Vec<f64> {
    vec![r.hi(), r.lo()]
}
/// Any valid TwoFloat over the whole exponent range (panic monitor workload).
fn any_valid(r: &mut Rng) -> W {
    match r.below(6) {
        0 => tf_in_or_zero(r, -1022, 1023),
        1 => tf_in(r, -12, 12),
        2 => tf_in(r, 5, 12),
        _ => tf_in(r, -60, 60),
    }
}
fn expect_exact(c: &mut Ctx, op: &'static str, what: &str, ins: &[u64], res: Result<W, String>, want: f64) {
    match res {
        Err(m) => {
            c.panics += 1;
            c.viol(op, "panic", ins, &[], m)
        }
        Ok(r) => {
            if !(finite(r) && dy(r).eq(&Dy::from_f64(want))) {
                c.viol(op, "exact_point", ins, &outs(r), format!("{what} must be exactly {want}"));
            }
        }
    }
}
fn expect_invalid(c: &mut Ctx, op: &'static str, what: &str, ins: &[u64], res: Result<W, String>) {
    match res {
        Err(m) => {
            c.panics += 1;
            c.viol(op, "panic", ins, &[], m)
        }
        Ok(r) => {
            if valid_ref(r.0, r.1) {
                c.viol(op, "domain_error_valid", ins, &outs(r), format!("{what} must not be a valid TwoFloat"));
            }
        }
    }
}
fn no_panic(c: &mut Ctx, op: &'static str, ins: &[u64], f: impl FnOnce() -> W) -> Option<W> {
    match guard(f) {
        Ok(r) => Some(r),
        Err(m) => {
            c.panics += 1;
            c.viol(op, "panic", ins, &[], m);
            None
        }
    }
}


/// Deterministic linear grids (with sub-step jitter and a random low word) over [c-hw, c+hw]:
/// mis-placed range switches and saturation thresholds are narrow bands in linear scale.
fn emit_grid(e: &mut Emit, funcs: &[(&str, fn(TwoFloat) -> TwoFloat)], grids: &[(f64, f64)], keep: fn(W) -> bool) {
    let npts: i64 = if e.tier == 0 { 1 << 11 } else { 1 << 17 };
    for (gi, &(center, hw)) in grids.iter().enumerate() {
        let stepw = 2.0 * hw / npts as f64;
        for k in 0..npts {
            if (k as u64 + gi as u64) % e.nshards != e.shard {
                continue;
            }
            let jitter = (e.rng.next() >> 11) as f64 * pow2(-53);
            let hi = center - hw + (k as f64 + jitter) * stepw;
            let (h, l, _) = tf_with_hi(&mut e.rng, hi);
            let a = (h, l);
            if !valid_ref(a.0, a.1) || !keep(a) {
                continue;
            }
            for (name, f) in funcs {
                let f = *f;
                e.ev(name, &tf1(a), || v2(f(t(a))));
            }
        }
    }
}

/// The same functions reached through the num_traits::Float trait (a forwarding slip is invisible to
/// calls of the inherent methods).
fn emit_trait_routes(e: &mut Emit, funcs: &[(&str, fn(TwoFloat) -> TwoFloat)], emin: i64, emax: i64, positive: bool) {
    for _ in 0..e.budget(24_000, 1_200_000) {
        let a = if e.rng.coin() { special_hi(&mut e.rng) } else { tf_in(&mut e.rng, emin, emax) };
        let a = if positive { (a.0.abs(), if a.0 < 0.0 { -a.1 } else { a.1 }) } else { a };
        if !valid_ref(a.0, a.1) {
            continue;
        }
        for (name, f) in funcs {
            let f = *f;
            e.ev(name, &tf1(a), || v2(f(t(a))));
        }
    }
}

/// "Special" high words (small integers, halves, powers of two, 1 +- ulp) carrying a non-zero low
/// word: fast paths that look at the high word only are wrong exactly here.
fn special_hi(r: &mut Rng) -> W {
    let hi = match r.below(6) {
        0 => r.range(-40, 40) as f64,
        1 => r.range(-80, 80) as f64 * 0.5,
        2 => pow2(r.range(-40, 40)) * if r.coin() { 1.0 } else { -1.0 },
        3 => 1.0,
        4 => r.range(-1200, 1200) as f64 / 128.0,
        _ => r.range(-900, 900) as f64,
    };
    if hi == 0.0 {
        return (1.0, pow2(-60));
    }
    let cls = pk!(r, [2u64, 3, 4, 8, 8, 9, 11]);
    let lo = lo_class(r, hi, cls);
    if lo != 0.0 && valid_ref(hi, lo) {
        (hi, lo)
    } else {
        (hi, pow2((ulp_exp(hi) - 8).max(-1074)))
    }
}


// ------------------------------------------------------------------------------------------
// Differential triage: the current tree and a frozen reference copy (harness/refcrate) are run side
// by side at native speed on a much larger argument stream than the mp checker could judge; only
// the arguments on which their words differ are logged (and then judged by the oracle like any
// other event). The reference is never used as an oracle.
// ------------------------------------------------------------------------------------------

use twofloat_ref::TwoFloat as RefTF;

fn rt(a: W) -> RefTF {
    twofloat_ref::verif_hooks::from_raw(a.0, a.1)
}
fn canon_bits(x: f64) -> u64 {
    if x.is_nan() {
        0x7ff8_0000_0000_0000
    } else {
        x.to_bits()
    }
}

pub struct Dom {
    pub emin: i64,
    pub emax: i64,
    pub lin: &'static [f64],
    pub positive: bool,
}

fn triage_arg(r: &mut Rng, d: &Dom, prev: W) -> W {
    let a = match r.below(10) {
        0 | 1 | 2 => tf_in(r, d.emin, d.emax),
        3 | 4 | 5 => {
            let l = d.lin[r.below(d.lin.len() as u64) as usize];
            let u = (r.next() >> 11) as f64 * pow2(-53);
            let hi = l * (2.0 * u - 1.0);
            let (h, lo, _) = tf_with_hi(r, hi);
            (h, lo)
        }
        6 => special_hi(r),
        7 => crate::pools::published_const(r),
        8 => {
            match r.below(3) {
                0 => crate::pools::round_integer(r),
                1 => prev,
                _ => {
                    // the result of another function applied to the previous argument (chains of calls)
                    let p = t(prev);
                    let k = r.below(8);
                    let y = crate::ctx::guard(|| {
                        w(match k {
                            0 => p.exp(),
                            1 => p.abs().ln(),
                            2 => p.abs().sqrt(),
                            3 => p.sin(),
                            4 => p.atan(),
                            5 => p.recip(),
                            6 => p * p,
                            _ => p.tanh(),
                        })
                    })
                    .unwrap_or(prev);
                    if valid_ref(y.0, y.1) && y.0.is_finite() && y.0 != 0.0 { y } else { prev }
                }
            }
        }
        _ => {
            // neighbour of the previous argument: same high word, other low word / stepped high word
            if prev.0 != 0.0 && prev.0.is_finite() {
                let h = step(prev.0, r.range(-2, 2));
                let (h, l, _) = tf_with_hi(r, h);
                (h, l)
            } else {
                tf_in(r, d.emin, d.emax)
            }
        }
    };
    let a = if d.positive { (a.0.abs(), if a.0 < 0.0 { -a.1 } else { a.1 }) } else { a };
    if valid_ref(a.0, a.1) && a.0.is_finite() {
        a
    } else {
        (1.5, 0.0)
    }
}

/// Unary functions: returns the number of differing arguments found (all of them logged).
fn triage_unary(e: &mut Emit, funcs: &[(&str, fn(TwoFloat) -> TwoFloat, fn(RefTF) -> RefTF)], d: &Dom, n: u64) {
    let mut prev = (1.0, 0.0);
    let mut found = 0u64;
    let cap: u64 = if e.tier == 0 { 5_000 } else { 150_000 };
    for _ in 0..n {
        let a = triage_arg(&mut e.rng, d, prev);
        prev = a;
        for (name, f, g) in funcs {
            let (f, g) = (*f, *g);
            let r1 = crate::ctx::guard(|| f(t(a)));
            let r2 = crate::ctx::guard(|| g(rt(a)));
            let same = match (&r1, &r2) {
                (Ok(x), Ok(y)) => canon_bits(x.hi()) == canon_bits(y.hi()) && canon_bits(x.lo()) == canon_bits(y.lo()),
                (Err(_), Err(_)) => true,
                _ => false,
            };
            e.triaged += 1;
            if !same && found < cap {
                found += 1;
                e.triage_diffs += 1;
                e.ev(name, &tf1(a), || v2(f(t(a))));
            }
        }
    }
}

fn triage_binary(e: &mut Emit, name: &str, f: fn(TwoFloat, TwoFloat) -> TwoFloat, g: fn(RefTF, RefTF) -> RefTF, dx: &Dom, dy: &Dom, n: u64) {
    let (mut px, mut py) = ((1.5, 0.0), (2.0, 0.0));
    let mut found = 0u64;
    let cap: u64 = if e.tier == 0 { 5_000 } else { 150_000 };
    for _ in 0..n {
        let x = triage_arg(&mut e.rng, dx, px);
        let y = if e.rng.chance(1, 6) {
            let sg = e.rng.coin();
            let (h, l, _) = tf_with_hi(&mut e.rng, if sg { x.0 } else { -x.0 });
            (h, l)
        } else {
            triage_arg(&mut e.rng, dy, py)
        };
        px = x;
        py = y;
        let r1 = crate::ctx::guard(|| f(t(x), t(y)));
        let r2 = crate::ctx::guard(|| g(rt(x), rt(y)));
        let same = match (&r1, &r2) {
            (Ok(a), Ok(b)) => canon_bits(a.hi()) == canon_bits(b.hi()) && canon_bits(a.lo()) == canon_bits(b.lo()),
            (Err(_), Err(_)) => true,
            _ => false,
        };
        e.triaged += 1;
        if !same && found < cap {
            found += 1;
            e.triage_diffs += 1;
            e.ev(name, &[hx(x.0), hx(x.1), hx(y.0), hx(y.1)], || v2(f(t(x), t(y))));
        }
    }
}

// ------------------------------------------------------------------------------------------
// C14: exponential family
// ------------------------------------------------------------------------------------------

fn c14_panic_sweep(c: &mut Ctx, a: W, b: W) {
    let ins = [hx(a.0), hx(a.1), hx(b.0), hx(b.1)];
    let ta = t(a);
    let tb = t(b);
    c.note("exp", &tf1(a), true);
    let r = no_panic(c, "exp", &tf1(a), || w(ta.exp()));
    // saturation
    if let Some(r) = r {
        let v = dy(a);
        if v.le(&Dy::from_f64(-750.0)) && !(finite(r) && dy(r).is_zero()) {
            c.viol("exp", "underflow_not_zero", &tf1(a), &outs(r), "exp(x) must be exactly 0 for x <= -750".into());
        }
        if !v.lt(&Dy::from_f64(710.0)) && r.0.is_finite() {
            c.viol("exp", "overflow_finite", &tf1(a), &outs(r), "exp(x) must have a non-finite high word for x >= 710".into());
        }
    }
    c.note("exp2", &tf1(a), true);
    if let Some(r) = no_panic(c, "exp2", &tf1(a), || w(ta.exp2())) {
        let v = dy(a);
        if v.le(&Dy::from_f64(-1080.0)) && !(finite(r) && dy(r).is_zero()) {
            c.viol("exp2", "underflow_not_zero", &tf1(a), &outs(r), "exp2(x) must be exactly 0 for x <= -1080".into());
        }
        if !v.lt(&Dy::from_f64(1024.0)) && r.0.is_finite() {
            c.viol("exp2", "overflow_finite", &tf1(a), &outs(r), "exp2(x) must have a non-finite high word for x >= 1024".into());
        }
    }
    c.note("exp_m1", &tf1(a), true);
    no_panic(c, "exp_m1", &tf1(a), || w(ta.exp_m1()));
    c.note("powf", &ins, true);
    if let Some(r) = no_panic(c, "powf", &ins, || w(ta.powf(tb))) {
        // Pow<f64> / Pow<TwoFloat> agree with powf
        use num_traits::Pow;
        if let Some(p) = no_panic(c, "powf", &ins, || w(Pow::pow(ta, tb))) {
            if !beq(p, r) {
                c.viol("powf", "pow_trait_differs", &ins, &outs(p), "Pow<TwoFloat> differs from powf".into());
            }
        }
        if b.1 == 0.0 {
            if let Some(p) = no_panic(c, "powf", &ins, || w(Pow::pow(ta, b.0))) {
                if !beq(p, r) {
                    c.viol("powf", "pow_trait_differs", &ins, &outs(p), "Pow<f64> differs from powf".into());
                }
            }
        }
        let (va, vb) = (dy(a), dy(b));
        if va.is_zero() && vb.is_zero() {
            if valid_ref(r.0, r.1) {
                c.viol("powf", "zero_pow_zero", &ins, &outs(r), "0^0 must be invalid".into());
            }
        } else if vb.is_zero() {
            if !(finite(r) && dy(r).eq(&Dy::from_f64(1.0))) {
                c.viol("powf", "pow_zero", &ins, &outs(r), "powf(x, 0) must be 1 for x != 0".into());
            }
        } else if va.is_zero() && vb.sign() > 0 {
            if !(finite(r) && dy(r).is_zero()) {
                c.viol("powf", "zero_pow", &ins, &outs(r), "powf(0, y) must be 0 for y > 0".into());
            }
        } else if va.sign() < 0 && !vb.is_integer() {
            if valid_ref(r.0, r.1) {
                c.viol("powf", "neg_base_nonint", &ins, &outs(r), "negative base with non-integer exponent must be invalid".into());
            }
        } else if va.sign() < 0 && vb.is_integer() && finite(r) && r.0 != 0.0 {
            // sign given by the parity of the integer exponent, whatever its magnitude
            c.count("powf_negative_base_integer_exponent");
            let want_neg = vb.is_odd_integer();
            if (r.0 < 0.0) != want_neg {
                c.viol("powf", "neg_base_sign", &ins, &outs(r), format!("negative base, integer exponent ({}): wrong sign", if want_neg { "odd" } else { "even" }));
            }
        }
    }
}

/// Call-only sweep under the panic monitor: native-speed volume for the "never panics" clauses
/// (debug-only self-checks and assertions fire on rare numerical tails that no oracle-rate sampling meets).
pub fn panic_sweep(c: &mut Ctx, name: &'static str, funcs: &[fn(TwoFloat) -> TwoFloat], lin: &[(f64, f64)], emin: i64, emax: i64, positive: bool, n: u64) {
    for i in 0..n {
        let a = if i % 2 == 0 {
            let (lo, hi) = lin[c.rng.below(lin.len() as u64) as usize];
            let u = (c.rng.next() >> 11) as f64 * pow2(-53);
            let x = lo + (hi - lo) * u;
            let (h, l, _) = tf_with_hi(&mut c.rng, x);
            (h, l)
        } else {
            tf_in(&mut c.rng, emin, emax)
        };
        let a = if positive { (a.0.abs(), if a.0 < 0.0 { -a.1 } else { a.1 }) } else { a };
        if !valid_ref(a.0, a.1) {
            continue;
        }
        c.evals += funcs.len() as u64;
        for f in funcs {
            let f = *f;
            if let Err(m) = guard(|| f(t(a))) {
                c.panics += 1;
                c.viol(name, "panic", &tf1(a), &[], m);
            }
        }
    }
    *c.counters.entry("panic_sweep_calls").or_insert(0) += n * funcs.len() as u64;
}

pub fn c14(c: &mut Ctx) {
    let ns = c.budget(16_000_000, 1_600_000_000);
    panic_sweep(c, "exp_family/panic_sweep", &[|x| x.exp(), |x| x.exp2(), |x| x.exp_m1()], &[(-1.0, 1.0), (-40.0, 40.0), (-750.0, 720.0)], -60, 10, false, ns / 3);
    let z = [(0.0, 0.0), (-0.0, 0.0), (0.0, -0.0)];
    for a in z {
        c.note("exp", &tf1(a), true);
        expect_exact(c, "exp", "exp(0)", &tf1(a), guard(|| w(t(a).exp())), 1.0);
        c.note("exp_m1", &tf1(a), true);
        expect_exact(c, "exp_m1", "exp_m1(0)", &tf1(a), guard(|| w(t(a).exp_m1())), 0.0);
        c.note("exp2", &tf1(a), true);
        expect_exact(c, "exp2", "exp2(0)", &tf1(a), guard(|| w(t(a).exp2())), 1.0);
    }
    // exp2(k) = 2^k exactly for all integer k in [-1022, 1022]
    for k in -1022..=1022i64 {
        if (k + 1022) as u64 % c.nshards != c.shard {
            continue;
        }
        let a = (k as f64, 0.0);
        c.note("exp2/int", &tf1(a), true);
        expect_exact(c, "exp2/int", "exp2(k)", &tf1(a), guard(|| w(t(a).exp2())), pow2(k));
    }
    let n = c.budget(2_000_000, 200_000_000) / 5;
    for i in 0..n {
        let a = match i % 8 {
            0 => {
                // rounding switch of the argument reduction: hi = k/2 + 1/4 exactly, lo of either sign
                let k = c.rng.range(-1417, 1417);
                let hi = k as f64 * 0.5 + if k >= 0 { 0.25 } else { -0.25 };
                let (h, l, _) = tf_with_hi(&mut c.rng, hi);
                (h, l)
            }
            1 => {
                // both sides of the range limits
                let lim = pk!(c.rng, [709.0, -709.0, -1074.0, 1023.0, 710.0, -750.0, 1024.0, -1080.0, 700.0, -600.0]);
                let h = step(lim, c.rng.range(-2, 2));
                let (h, l, _) = tf_with_hi(&mut c.rng, h);
                (h, l)
            }
            2 => tf_in(&mut c.rng, 8, 1023),
            _ => any_valid(&mut c.rng),
        };
        let b = match i % 5 {
            0 => (c.rng.range(-12, 12) as f64, 0.0),
            1 => (0.0, 0.0),
            2 => tf_in(&mut c.rng, -3, 4),
            _ => any_valid(&mut c.rng),
        };
        c14_panic_sweep(c, a, b);
        // negative base close to -1 with integer exponents of any magnitude (parity may sit in the low word)
        if i % 16 == 1 {
            let k = c.rng.range(20, 50);
            let base = (-(1.0 + pow2(-k) * (1.0 + c.rng.below(7) as f64)), 0.0);
            let j = c.rng.range(1, k + 8);
            let small = c.rng.range(-3, 3) as f64;
            let yv = match c.rng.below(4) {
                0 => (pow2(j), small),
                1 => (-pow2(j), small),
                2 => (pow2(j) + small, 0.0),
                _ => (c.rng.range(-2000, 2000) as f64, 0.0),
            };
            if valid_ref(yv.0, yv.1) && valid_ref(base.0, base.1) {
                c14_panic_sweep(c, base, yv);
            }
        }
        // integer exponent with a tiny low word is still "non-integer"
        if i % 64 == 0 {
            let nb = (c.rng.range(-9, 9) as f64, pow2(-80) * if c.rng.coin() { 1.0 } else { -1.0 });
            let na = (-(a.0.abs()), -a.1 * a.0.signum());
            if valid_ref(na.0, na.1) && valid_ref(nb.0, nb.1) {
                c14_panic_sweep(c, na, nb);
            }
        }
    }
}

fn exp_args(e: &mut Emit, i: u64) -> W {
    let r = &mut e.rng;
    match i % 10 {
        0..=3 => {
            // table stratification: x = +-(16a + b/2) + n/128 + delta
            let a = r.range(0, 44);
            let b = r.range(0, 31);
            let n = r.range(-32, 32);
            let neg = r.coin();
            let base = (16 * a) as f64 + b as f64 * 0.5;
            let x = if neg { -base } else { base } + n as f64 / 128.0;
            let d = match r.below(4) {
                0 => 0.0,
                1 => pow2(-r.range(40, 200)) * if r.coin() { 1.0 } else { -1.0 },
                _ => (r.range(-(1 << 20), 1 << 20) as f64) * pow2(-28), // within +-1/256
            };
            let x = x + d;
            if x.abs() >= 708.9 {
                let (h, l, _) = tf_with_hi(r, if x > 0.0 { 708.0 + (a as f64) / 64.0 } else { -708.0 - (a as f64) / 64.0 });
                return (h, l);
            }
            let (h, l, _) = tf_with_hi(r, x);
            (h, l)
        }
        4 => {
            // hi exactly k/2 + 1/4
            let k = r.range(-1199, 1399);
            let hi = k as f64 * 0.5 + if k >= 0 { 0.25 } else { -0.25 };
            let (h, l, _) = tf_with_hi(r, hi);
            (h, l)
        }
        5 => {
            // towards 0
            let (h, l) = tf_in(r, -1000, -1);
            (h, l)
        }
        6 => {
            let lim = pk!(r, [-0.6931471805599453, 0.4054651081081644, 700.0, -600.0, 0.25, -0.25, 0.5]);
            let h = step(lim, r.range(-3, 3));
            let (h, l, _) = tf_with_hi(r, h);
            (h, l)
        }
        _ => {
            // uniform in [-600, 700]
            let x = (r.range(-600 * 1024, 700 * 1024) as f64) / 1024.0 + (r.range(0, 1 << 30) as f64) * pow2(-40);
            let (h, l, _) = tf_with_hi(r, x);
            (h, l)
        }
    }
}

pub fn emit_c14(e: &mut Emit) {
    {
        use num_traits::Float as F;
        emit_trait_routes(e, &[("exp", |x| F::exp(x)), ("exp2", |x| F::exp2(x)), ("exp_m1", |x| F::exp_m1(x))], -30, 9, false);
    }
    let nt = e.budget(3_000_000, 300_000_000);
    triage_unary(e, &[("exp", |x| x.exp(), |x| x.exp()), ("exp_m1", |x| x.exp_m1(), |x| x.exp_m1())], &Dom { emin: -60, emax: 9, lin: &[1.0, 4.0, 40.0, 700.0], positive: false }, nt / 3);
    triage_unary(e, &[("exp2", |x| x.exp2(), |x| x.exp2())], &Dom { emin: -60, emax: 9, lin: &[1.0, 4.0, 40.0, 1000.0], positive: false }, nt / 3);
    triage_binary(e, "powf", |x, y| x.powf(y), |x, y| x.powf(y), &Dom { emin: -30, emax: 29, lin: &[2.0, 40.0, 1000.0], positive: true }, &Dom { emin: -20, emax: 3, lin: &[1.0, 10.0], positive: false }, nt / 3);
    emit_grid(e, &[("exp", |x| x.exp()), ("exp_m1", |x| x.exp_m1()), ("exp2", |x| x.exp2())], &[(0.0, 1.0), (0.0, 40.0), (50.0, 650.0)], |_| true);
    for _ in 0..e.budget(40_000, 2_000_000) {
        let a = special_hi(&mut e.rng);
        e.ev("exp", &tf1(a), || v2(t(a).exp()));
        e.ev("exp2", &tf1(a), || v2(t(a).exp2()));
        e.ev("exp_m1", &tf1(a), || v2(t(a).exp_m1()));
        let b = special_hi(&mut e.rng);
        e.ev("powf", &[hx(a.0), hx(a.1), hx(b.0), hx(b.1)], || v2(t(a).powf(t(b))));
    }
    let n = e.budget(1_200_000, 100_000_000) / 4;
    // systematic walk over all table entries first (every (sign, a, b) and every n)
    let mut idx = 0u64;
    for neg in [false, true] {
        for a in 0..=44i64 {
            for b in 0..=31i64 {
                idx += 1;
                if idx % e.nshards != e.shard {
                    continue;
                }
                let base = (16 * a) as f64 + b as f64 * 0.5;
                if base >= 709.0 {
                    continue;
                }
                let n128 = e.rng.range(-32, 32);
                let x = if neg { -base } else { base } + n128 as f64 / 128.0 + (e.rng.range(-1000, 1000) as f64) * pow2(-20);
                if x.abs() < 709.0 {
                    let (h, l, _) = tf_with_hi(&mut e.rng, x);
                    e.ev("exp", &tf1((h, l)), || v2(t((h, l)).exp()));
                }
            }
        }
    }
    for n128 in -32..=32i64 {
        let x = n128 as f64 / 128.0 + (e.rng.range(-1000, 1000) as f64) * pow2(-20);
        let (h, l, _) = tf_with_hi(&mut e.rng, x + e.shard as f64 * 0.5);
        e.ev("exp", &tf1((h, l)), || v2(t((h, l)).exp()));
    }
    for i in 0..n {
        let a = exp_args(e, i);
        e.ev("exp", &tf1(a), || v2(t(a).exp()));
        // exp2: integer part over the whole range, fractional part log-uniform
        let k = e.rng.range(-900, 999) as f64;
        let f = match e.rng.below(5) {
            0 => 0.0,
            1 => 0.5 * if e.rng.coin() { 1.0 } else { -1.0 },
            2 => pow2(-e.rng.range(1, 60)) * if e.rng.coin() { 1.0 } else { -1.0 },
            _ => (e.rng.next() >> 11) as f64 * pow2(-53) - 0.5,
        };
        let (h, l, _) = tf_with_hi(&mut e.rng, k + f);
        let b = (h, l);
        e.ev("exp2", &tf1(b), || v2(t(b).exp2()));
        // exp_m1: log-uniform magnitudes, both signs, switch points
        let m = match e.rng.below(8) {
            0 => {
                let lim = pk!(e.rng, [-0.6931471805599453, 0.4054651081081644, 0.00390625, -0.00390625, -0.70, 0.41]);
                let h = step(lim, e.rng.range(-3, 3));
                let (h, l, _) = tf_with_hi(&mut e.rng, h);
                (h, l)
            }
            1 => tf_in(&mut e.rng, -1000, -9),
            2 => tf_in(&mut e.rng, -9, -1),
            3 => exp_args(e, i),
            _ => tf_in(&mut e.rng, -8, 9),
        };
        e.ev("exp_m1", &tf1(m), || v2(t(m).exp_m1()));
        // powf: 2^-30 <= x <= 2^30, |y| <= 10
        let x = match e.rng.below(5) {
            0 => {
                let (h, l, _) = { let d = e.rng.range(-1000, 1000); tf_with_hi(&mut e.rng, step(1.0, d)) };
                (h, l)
            }
            1 => (e.rng.range(1, 1000) as f64, 0.0),
            _ => tf_in(&mut e.rng, -30, 29),
        };
        let x = (x.0.abs(), if x.0 < 0.0 { -x.1 } else { x.1 });
        let y = match e.rng.below(5) {
            0 => (e.rng.range(-10, 10) as f64, 0.0),
            1 => (e.rng.range(-20, 20) as f64 * 0.5, 0.0),
            _ => {
                let y = tf_in(&mut e.rng, -20, 3);
                if y.0.abs() <= 10.0 {
                    y
                } else {
                    (y.0 / 2.0, y.1 / 2.0)
                }
            }
        };
        // negative base with integer exponent sometimes
        let (x, y) = if e.rng.chance(1, 8) { ((-x.0, -x.1), (e.rng.range(-10, 10) as f64, 0.0)) } else { (x, y) };
        e.ev("powf", &[hx(x.0), hx(x.1), hx(y.0), hx(y.1)], || v2(t(x).powf(t(y))));
    }
}

// ------------------------------------------------------------------------------------------
// C15: logarithms
// ------------------------------------------------------------------------------------------

pub fn c15(c: &mut Ctx) {
    let ns = c.budget(24_000_000, 2_400_000_000);
    panic_sweep(c, "log_family/panic_sweep", &[|x| x.ln(), |x| x.log2(), |x| x.ln_1p()], &[(0.3, 4.0), (0.9, 1.1), (0.0, 100.0)], -1000, 959, true, ns / 3);
    let one = (1.0, 0.0);
    for (op, f) in [("ln", 0u8), ("log2", 1), ("log10", 2)] {
        c.note(op, &tf1(one), true);
        expect_exact(c, op, "f(1)", &tf1(one), guard(|| w(match f { 0 => t(one).ln(), 1 => t(one).log2(), _ => t(one).log10() })), 0.0);
    }
    for z in [(0.0, 0.0), (-0.0, 0.0)] {
        c.note("ln_1p", &tf1(z), true);
        expect_exact(c, "ln_1p", "ln_1p(0)", &tf1(z), guard(|| w(t(z).ln_1p())), 0.0);
    }
    // log2(2^k) = k exactly, k in [-1000, 960]
    for k in -1000..=960i64 {
        if (k + 1000) as u64 % c.nshards != c.shard {
            continue;
        }
        let a = (pow2(k), 0.0);
        c.note("log2/pow2", &tf1(a), true);
        expect_exact(c, "log2/pow2", "log2(2^k)", &tf1(a), guard(|| w(t(a).log2())), k as f64);
    }
    let n = c.budget(1_500_000, 150_000_000) / 8;
    for i in 0..n {
        // domain errors: arguments <= 0 (resp. <= -1)
        let a = tf_in_or_zero(&mut c.rng, -1000, 960);
        let neg = (-(a.0.abs()), if a.0 > 0.0 { -a.1 } else { a.1 });
        for (op, f) in [("ln", 0u8), ("log2", 1), ("log10", 2)] {
            c.note(op, &tf1(neg), true);
            expect_invalid(c, op, "f(x <= 0)", &tf1(neg), guard(|| w(match f { 0 => t(neg).ln(), 1 => t(neg).log2(), _ => t(neg).log10() })));
        }
        let m = if i % 3 == 0 { (-1.0, 0.0) } else { let e = c.rng.range(0, 900); let (h, l) = tf_in(&mut c.rng, e, e); (-(h.abs()), if h > 0.0 { -l } else { l }) };
        if dy(m).le(&Dy::from_f64(-1.0)) {
            c.note("ln_1p", &tf1(m), true);
            expect_invalid(c, "ln_1p", "ln_1p(x <= -1)", &tf1(m), guard(|| w(t(m).ln_1p())));
        }
        // no panics over the stated domain, and the quotient identities bit for bit
        let x = match i % 6 {
            4 => {
                // special arguments: powers of ten, small integers, powers of two (fast paths live here)
                match c.rng.below(3) {
                    0 => {
                        let mut p10 = 1.0f64;
                        for _ in 0..c.rng.below(23) {
                            p10 *= 10.0;
                        }
                        (p10, 0.0)
                    }
                    1 => (c.rng.range(1, 4096) as f64, 0.0),
                    _ => (pow2(c.rng.range(-1000, 959)), 0.0),
                }
            }
            5 => {
                // inverse-seeded: x = exp(g) / exp2(g) for g on the reduction grids (k/256, k/2 + 1/4, ...)
                let g = match c.rng.below(3) {
                    0 => c.rng.range(-180_000, 180_000) as f64 / 256.0,
                    1 => c.rng.range(-1400, 1400) as f64 * 0.5 + 0.25,
                    _ => c.rng.range(-90_000, 90_000) as f64 / 128.0 + pow2(-c.rng.range(30, 60)),
                };
                let y = guard(|| w(if c.rng.clone().coin() { TwoFloat::from(g).exp() } else { TwoFloat::from(g * 1.4375).exp2() })).unwrap_or((1.5, 0.0));
                if valid_ref(y.0, y.1) && y.0 > 0.0 && exp_of(y.0) >= -1000 && exp_of(y.0) < 960 { y } else { (1.5, 0.0) }
            }
            _ => tf_in(&mut c.rng, -1000, 959),
        };
        let x = match i % 6 {
            4 | 5 => x,
            _ => match i % 4 {
            0 => {
                let k = c.rng.range(1, 105);
                let h = if k <= 52 { 1.0 + pow2(-k) * if c.rng.coin() { 1.0 } else { -1.0 } } else { 1.0 };
                let (h, l, _) = tf_with_hi(&mut c.rng, h);
                (h, l)
            }
            1 => tf_in(&mut c.rng, -4, 4),
            _ => tf_in(&mut c.rng, -1000, 959),
            },
        };
        let x = (x.0.abs(), if x.0 < 0.0 { -x.1 } else { x.1 });
        let b = match c.rng.below(5) {
            0 => (pk!(c.rng, [2.0f64, 10.0, 3.0, 16.0, 0.5, 100.0, 8.0]), 0.0),
            4 => x,
            _ => tf_in(&mut c.rng, -100, 100),
        };
        // log(x, b) with x == b, with non-positive or unit arguments: still exactly x.ln() / b.ln()
        if i % 16 == 7 {
            for s in [(-2.0, 0.0), (1.0, 0.0), (0.0, 0.0), (-(x.0), -(x.1)), (0.5, 0.0)] {
                let ins = [hx(s.0), hx(s.1), hx(s.0), hx(s.1)];
                c.note("log", &ins, true);
                let lg = guard(|| w(t(s).log(t(s))));
                let q = guard(|| w(t(s).ln() / t(s).ln()));
                match (lg, q) {
                    (Ok(lg), Ok(q)) if beq(lg, q) => {}
                    (Ok(lg), _) => c.viol("log", "not_ln_over_ln", &ins, &outs(lg), "log(x, x) must be bit-identical to x.ln() / x.ln()".into()),
                    (Err(m), _) => c.viol("log", "panic", &ins, &[], m),
                }
            }
        }
        let b = (b.0.abs(), if b.0 < 0.0 { -b.1 } else { b.1 });
        let ins = [hx(x.0), hx(x.1), hx(b.0), hx(b.1)];
        c.note("ln", &tf1(x), true);
        let l = no_panic(c, "ln", &tf1(x), || w(t(x).ln()));
        c.note("log2", &tf1(x), true);
        no_panic(c, "log2", &tf1(x), || w(t(x).log2()));
        c.note("log10", &tf1(x), true);
        let l10 = no_panic(c, "log10", &tf1(x), || w(t(x).log10()));
        c.note("log", &ins, true);
        let lg = no_panic(c, "log", &ins, || w(t(x).log(t(b))));
        if let (Some(l), Some(l10), Some(lg)) = (l, l10, lg) {
            let q10 = w(t(l) / consts::LN_10);
            if !beq(l10, q10) {
                c.viol("log10", "not_ln_over_ln10", &tf1(x), &outs(l10), "log10(x) must be bit-identical to x.ln() / LN_10".into());
            }
            if let Some(lb) = no_panic(c, "ln", &tf1(b), || w(t(b).ln())) {
                let q = w(t(l) / t(lb));
                if !beq(lg, q) {
                    c.viol("log", "not_ln_over_ln", &ins, &outs(lg), "log(x, b) must be bit-identical to x.ln() / b.ln()".into());
                }
            }
        }
        // ln_1p over (-1, 2^960]
        let y = match i % 4 {
            0 => {
                let k = c.rng.range(1, 60);
                let (h, l, _) = tf_with_hi(&mut c.rng, -1.0 + pow2(-k.min(52)));
                (h, l)
            }
            1 => tf_in(&mut c.rng, -1000, -1),
            _ => x,
        };
        if dy(y).cmp(&Dy::from_f64(-1.0)) == std::cmp::Ordering::Greater {
            c.note("ln_1p", &tf1(y), true);
            no_panic(c, "ln_1p", &tf1(y), || w(t(y).ln_1p()));
        }
    }
}

pub fn emit_c15(e: &mut Emit) {
    {
        use num_traits::Float as F;
        emit_trait_routes(e, &[("ln", |x| F::ln(x)), ("log2", |x| F::log2(x)), ("log10", |x| F::log10(x)), ("ln_1p", |x| F::ln_1p(x))], -100, 100, true);
    }
    let nt = e.budget(3_000_000, 300_000_000);
    triage_unary(e, &[("ln", |x| x.ln(), |x| x.ln()), ("log2", |x| x.log2(), |x| x.log2()), ("log10", |x| x.log10(), |x| x.log10())], &Dom { emin: -1000, emax: 959, lin: &[2.0, 40.0, 1e6], positive: true }, nt / 2);
    triage_unary(e, &[("ln_1p", |x| x.ln_1p(), |x| x.ln_1p())], &Dom { emin: -60, emax: 100, lin: &[0.999, 0.01, 4.0], positive: false }, nt / 2);
    emit_grid(e, &[("ln", |x| x.ln()), ("log2", |x| x.log2()), ("log10", |x| x.log10()), ("ln_1p", |x| x.ln_1p())], &[(1.0, 0.999), (20.0, 19.0), (500.0, 499.0)], |a| a.0 > 0.0);
    emit_grid(e, &[("ln_1p", |x| x.ln_1p())], &[(0.0, 0.999)], |a| a.0 > -1.0);
    for _ in 0..e.budget(40_000, 2_000_000) {
        let a = special_hi(&mut e.rng);
        let a = (a.0.abs(), if a.0 < 0.0 { -a.1 } else { a.1 });
        e.ev("ln", &tf1(a), || v2(t(a).ln()));
        e.ev("log2", &tf1(a), || v2(t(a).log2()));
        e.ev("log10", &tf1(a), || v2(t(a).log10()));
        e.ev("ln_1p", &tf1(a), || v2(t(a).ln_1p()));
    }
    let n = e.budget(1_000_000, 100_000_000) / 4;
    for i in 0..n {
        let x = match i % 8 {
            0 | 1 => {
                // 1 +- 2^-k with random low words (result changes sign, relative terms vanish)
                let k = e.rng.range(1, 105);
                let h = if k <= 52 { 1.0 + pow2(-k) * if e.rng.coin() { 1.0 } else { -1.0 } } else { 1.0 };
                if k > 52 {
                    let lo = pow2(-k) * if e.rng.coin() { 1.0 } else { -1.0 } * (1.0 + (e.rng.next() >> 12) as f64 * pow2(-52));
                    if valid_ref(1.0, lo) {
                        (1.0, lo)
                    } else {
                        (1.0, pow2(-80))
                    }
                } else {
                    let (h, l, _) = tf_with_hi(&mut e.rng, h);
                    (h, l)
                }
            }
            2 => {
                // exact powers of two +- one low-word ulp
                let k = e.rng.range(-1000, 959);
                let lo = match e.rng.below(3) {
                    0 => 0.0,
                    1 => pow2((k - 110).max(-1074)),
                    _ => -pow2((k - 110).max(-1074)),
                };
                (pow2(k), lo)
            }
            3 => tf_in(&mut e.rng, -3, 3),
            _ => tf_in(&mut e.rng, -1000, 959),
        };
        let x = (x.0.abs(), if x.0 < 0.0 { -x.1 } else { x.1 });
        if !valid_ref(x.0, x.1) || x.0 == 0.0 {
            continue;
        }
        e.ev("ln", &tf1(x), || v2(t(x).ln()));
        e.ev("log2", &tf1(x), || v2(t(x).log2()));
        e.ev("log10", &tf1(x), || v2(t(x).log10()));
        let y = match i % 8 {
            0 => {
                // towards -1
                let k = e.rng.range(1, 110);
                if k <= 52 {
                    let (h, l, _) = tf_with_hi(&mut e.rng, -1.0 + pow2(-k));
                    (h, l)
                } else {
                    (-1.0, pow2(-k))
                }
            }
            1 => {
                let lim = pk!(e.rng, [0.00390625, -0.00390625, 0.75, -0.5, 0.5]);
                let h = step(lim, e.rng.range(-3, 3));
                let (h, l, _) = tf_with_hi(&mut e.rng, h);
                (h, l)
            }
            2 => tf_in(&mut e.rng, -1000, -9),
            3 => {
                let (h, l) = tf_in(&mut e.rng, -9, -1);
                (h, l)
            }
            4 => {
                let (h, l) = tf_in(&mut e.rng, -3, -1);
                (-(h.abs()), if h > 0.0 { -l } else { l })
            }
            _ => x,
        };
        if valid_ref(y.0, y.1) && (y.0 > -1.0 || (y.0 == -1.0 && y.1 > 0.0)) {
            e.ev("ln_1p", &tf1(y), || v2(t(y).ln_1p()));
        }
    }
}

// ------------------------------------------------------------------------------------------
// C16: sin, cos, sin_cos, tan
// ------------------------------------------------------------------------------------------

const PI_HI: f64 = 3.141592653589793;
const PI_LO: f64 = 1.2246467991473532e-16;

/// k * pi/4 as a TwoFloat (workload construction only).
fn k_pi_4(k: i64) -> W {
    w(from_raw(PI_HI, PI_LO) * (k as f64) / 4.0)
}

fn trig_arg(r: &mut Rng, i: u64) -> W {
    match i % 8 {
        0..=2 => {
            let k = if r.coin() { r.range(0, 1 << 14) } else { ((r.next() >> 11) as f64 * pow2(-53) * 21.0) as i64; let b = r.below(21); r.range(0, (1i64 << b).min(1335088)) };
            let k = if r.coin() { k } else { -k };
            let base = k_pi_4(k);
            let x = match r.below(6) {
                0 => base,
                1 => (step(base.0, r.range(-2, 2)), base.1),
                2 => (base.0, step(base.1, r.range(-2, 2))),
                3 => {
                    let (h, l, _) = tf_with_hi(r, base.0);
                    (h, l)
                }
                _ => {
                    let d = (r.next() >> 11) as f64 * pow2(-53) * 0.8 - 0.4;
                    w(t(base) + d)
                }
            };
            if valid_ref(x.0, x.1) && x.0.abs() <= 1048576.0 {
                x
            } else {
                (base.0, 0.0)
            }
        }
        3 => tf_in(r, -1000, -2),
        4 => tf_in(r, -60, 0),
        5 => tf_in(r, 10, 19),
        _ => tf_in(r, -2, 19),
    }
}

pub fn c16(c: &mut Ctx) {
    for z in [(0.0, 0.0), (-0.0, 0.0)] {
        c.note("sin", &tf1(z), true);
        expect_exact(c, "sin", "sin(0)", &tf1(z), guard(|| w(t(z).sin())), 0.0);
        c.note("tan", &tf1(z), true);
        expect_exact(c, "tan", "tan(0)", &tf1(z), guard(|| w(t(z).tan())), 0.0);
        c.note("cos", &tf1(z), true);
        expect_exact(c, "cos", "cos(0)", &tf1(z), guard(|| w(t(z).cos())), 1.0);
    }
    let n = c.budget(1_500_000, 150_000_000) / 5;
    for i in 0..n {
        let x = trig_arg(&mut c.rng, i);
        let ins = tf1(x);
        c.note("sin_cos", &ins, x.0 != 0.0);
        match guard(|| (w(t(x).sin()), w(t(x).cos()), t(x).sin_cos(), w(t(x).tan()))) {
            Err(m) => {
                c.panics += 1;
                c.viol("sin_cos", "panic", &ins, &[], m)
            }
            Ok((s, co, (s2, c2), tn)) => {
                if !(beq(s, w(s2)) && beq(co, w(c2))) {
                    c.viol("sin_cos", "differs", &ins, &[hx(s.0), hx(s.1), hx(s2.hi()), hx(s2.lo()), hx(co.0), hx(co.1), hx(c2.hi()), hx(c2.lo())], "sin_cos(x) must equal (sin(x), cos(x)) bit for bit".into());
                }
                if x.0.abs() <= 1048576.0 && !(valid_ref(s.0, s.1) && valid_ref(co.0, co.1)) {
                    c.viol("sin_cos", "invalid_result", &ins, &outs(s), "valid argument in range gave an invalid sin/cos".into());
                }
                let _ = tn;
                c.sample("sin_cos", || json!({"x": [x.0, x.1], "sin": [s.0, s.1], "cos": [co.0, co.1]}));
            }
        }
        // invalid argument => invalid result
        if i % 4 == 0 {
            let bad: W = match c.rng.below(6) {
                0 => (f64::NAN, f64::NAN),
                1 => (f64::INFINITY, f64::INFINITY),
                2 => (f64::NEG_INFINITY, 0.0),
                3 => (x.0, f64::NAN),
                4 => (f64::INFINITY, 0.0),
                _ => {
                    // overlapping pair through the hook
                    let lo = pow2((ulp_exp(x.0) + c.rng.range(0, 3)).clamp(-1074, 1023));
                    (x.0, if c.rng.coin() { lo } else { -lo })
                }
            };
            if !valid_ref(bad.0, bad.1) {
                let ins = tf1(bad);
                c.note("trig/invalid_arg", &ins, true);
                match guard(|| (w(t(bad).sin()), w(t(bad).cos()), t(bad).sin_cos(), w(t(bad).tan()))) {
                    Err(m) => c.viol("trig/invalid_arg", "panic", &ins, &[], m),
                    Ok((s, co, (s2, c2), tn)) => {
                        for (nm, r) in [("sin", s), ("cos", co), ("sin_cos.0", w(s2)), ("sin_cos.1", w(c2)), ("tan", tn)] {
                            if valid_ref(r.0, r.1) {
                                c.viol("trig/invalid_arg", "valid_result", &ins, &outs(r), format!("{nm} of an invalid argument must be invalid"));
                            }
                        }
                    }
                }
            }
        }
    }
}

pub fn emit_c16(e: &mut Emit) {
    {
        use num_traits::Float as F;
        emit_trait_routes(e, &[("sin", |x| F::sin(x)), ("cos", |x| F::cos(x)), ("tan", |x| F::tan(x)), ("sin", |x| F::sin_cos(x).0), ("cos", |x| F::sin_cos(x).1)], -30, 19, false);
    }
    let nt = e.budget(3_000_000, 300_000_000);
    triage_unary(e, &[("sin", |x| x.sin(), |x| x.sin()), ("cos", |x| x.cos(), |x| x.cos()), ("tan", |x| x.tan(), |x| x.tan())], &Dom { emin: -60, emax: 19, lin: &[1.0, 8.0, 1000.0, 1.0e6], positive: false }, nt);
    emit_grid(e, &[("sin", |x| x.sin()), ("cos", |x| x.cos()), ("tan", |x| x.tan())], &[(0.0, 1.0), (0.0, 40.0), (0.0, 3000.0)], |_| true);
    for _ in 0..e.budget(40_000, 2_000_000) {
        let a = special_hi(&mut e.rng);
        e.ev("sin", &tf1(a), || v2(t(a).sin()));
        e.ev("cos", &tf1(a), || v2(t(a).cos()));
        e.ev("tan", &tf1(a), || v2(t(a).tan()));
    }
    let n = e.budget(1_000_000, 100_000_000) / 3;
    // every k up to 2^14 at least once in the thorough tier, strided in quick
    let stride = if e.tier == 0 { 16 } else { 1 };
    let mut k = e.shard as i64 * stride;
    while k <= (1 << 14) {
        for sg in [1i64, -1] {
            let b = k_pi_4(sg * k);
            for x in [b, (step(b.0, 1), b.1), (step(b.0, -1), b.1), (b.0, step(b.1, 1))] {
                if valid_ref(x.0, x.1) {
                    e.ev("sin", &tf1(x), || v2(t(x).sin()));
                    e.ev("cos", &tf1(x), || v2(t(x).cos()));
                    e.ev("tan", &tf1(x), || v2(t(x).tan()));
                }
            }
        }
        k += e.nshards as i64 * stride;
    }
    for i in 0..n {
        let x = trig_arg(&mut e.rng, i);
        e.ev("sin", &tf1(x), || v2(t(x).sin()));
        e.ev("cos", &tf1(x), || v2(t(x).cos()));
        e.ev("tan", &tf1(x), || v2(t(x).tan()));
    }
}

// ------------------------------------------------------------------------------------------
// C17: asin, acos, atan, atan2
// ------------------------------------------------------------------------------------------

pub fn c17(c: &mut Ctx) {
    for z in [(0.0, 0.0), (-0.0, 0.0)] {
        c.note("asin", &tf1(z), true);
        expect_exact(c, "asin", "asin(0)", &tf1(z), guard(|| w(t(z).asin())), 0.0);
        c.note("atan", &tf1(z), true);
        expect_exact(c, "atan", "atan(0)", &tf1(z), guard(|| w(t(z).atan())), 0.0);
    }
    c.note("acos", &tf1((1.0, 0.0)), true);
    expect_exact(c, "acos", "acos(1)", &tf1((1.0, 0.0)), guard(|| w(TwoFloat::from(1.0).acos())), 0.0);
    let n = c.budget(1_000_000, 100_000_000) / 6;
    let pi = w(consts::PI);
    let hp = w(consts::FRAC_PI_2);
    for _ in 0..n {
        // |x| > 1 => invalid
        let big = tf_in(&mut c.rng, 0, 100);
        if dy(big).abs().cmp(&Dy::from_f64(1.0)) == std::cmp::Ordering::Greater {
            c.note("asin", &tf1(big), true);
            expect_invalid(c, "asin", "asin(|x|>1)", &tf1(big), guard(|| w(t(big).asin())));
            c.note("acos", &tf1(big), true);
            expect_invalid(c, "acos", "acos(|x|>1)", &tf1(big), guard(|| w(t(big).acos())));
        }
        // one low-word unit above 1
        let just = (1.0, pow2(-c.rng.range(54, 1000)));
        let just = if c.rng.coin() { just } else { (-1.0, -just.1) };
        c.note("asin", &tf1(just), true);
        expect_invalid(c, "asin", "asin(1+tiny)", &tf1(just), guard(|| w(t(just).asin())));
        // atan2 axis cases: exact constants by operand signs
        let m = tf_in(&mut c.rng, -30, 30);
        let mpos = (m.0.abs(), if m.0 < 0.0 { -m.1 } else { m.1 });
        let mneg = (-mpos.0, -mpos.1);
        let cases: [(W, W, W, &str); 8] = [
            ((0.0, 0.0), mpos, (0.0, 0.0), "atan2(+0, x>0) = 0"),
            ((-0.0, 0.0), mpos, (0.0, 0.0), "atan2(-0, x>0) = 0"),
            ((0.0, 0.0), mneg, pi, "atan2(+0, x<0) = pi"),
            ((-0.0, 0.0), mneg, (-pi.0, -pi.1), "atan2(-0, x<0) = -pi"),
            (mpos, (0.0, 0.0), hp, "atan2(y>0, +0) = pi/2"),
            (mpos, (-0.0, 0.0), hp, "atan2(y>0, -0) = pi/2"),
            (mneg, (0.0, 0.0), (-hp.0, -hp.1), "atan2(y<0, +0) = -pi/2"),
            (mneg, (-0.0, 0.0), (-hp.0, -hp.1), "atan2(y<0, -0) = -pi/2"),
        ];
        for (y, x, want, what) in cases {
            let ins = [hx(y.0), hx(y.1), hx(x.0), hx(x.1)];
            c.note("atan2/axis", &ins, true);
            match guard(|| w(t(y).atan2(t(x)))) {
                Err(m) => c.viol("atan2/axis", "panic", &ins, &[], m),
                Ok(r) => {
                    let ok = finite(r) && dy(r).eq(&dy(want));
                    if !ok {
                        c.viol("atan2/axis", "wrong_constant", &ins, &outs(r), what.to_string());
                    }
                }
            }
        }
        // no panics over the domain
        let a = any_valid(&mut c.rng);
        c.note("atan", &tf1(a), true);
        no_panic(c, "atan", &tf1(a), || w(t(a).atan()));
        c.note("asin", &tf1(a), true);
        no_panic(c, "asin", &tf1(a), || w(t(a).asin()));
        no_panic(c, "acos", &tf1(a), || w(t(a).acos()));
    }
}

pub fn emit_c17(e: &mut Emit) {
    {
        use num_traits::Float as F;
        emit_trait_routes(e, &[("atan", |x| F::atan(x))], -30, 59, false);
        emit_trait_routes(e, &[("asin", |x| F::asin(x)), ("acos", |x| F::acos(x))], -30, -1, false);
        for _ in 0..e.budget(24_000, 1_200_000) {
            let y = tf_in(&mut e.rng, -30, 29);
            let x = tf_in(&mut e.rng, -30, 29);
            e.ev("atan2", &[hx(y.0), hx(y.1), hx(x.0), hx(x.1)], || v2(F::atan2(t(y), t(x))));
        }
    }
    let nt = e.budget(3_000_000, 300_000_000);
    triage_unary(e, &[("asin", |x| x.asin(), |x| x.asin()), ("acos", |x| x.acos(), |x| x.acos())], &Dom { emin: -60, emax: -1, lin: &[1.0, 0.6], positive: false }, nt / 3);
    triage_unary(e, &[("atan", |x| x.atan(), |x| x.atan())], &Dom { emin: -60, emax: 59, lin: &[1.0, 3.0, 100.0, 1.0e6], positive: false }, nt / 3);
    triage_binary(e, "atan2", |y, x| y.atan2(x), |y, x| y.atan2(x), &Dom { emin: -30, emax: 29, lin: &[2.0, 1000.0], positive: false }, &Dom { emin: -30, emax: 29, lin: &[2.0, 1000.0], positive: false }, nt / 3);
    emit_grid(e, &[("asin", |x| x.asin()), ("acos", |x| x.acos())], &[(0.0, 0.9999)], |_| true);
    emit_grid(e, &[("atan", |x| x.atan())], &[(0.0, 1.0), (0.0, 4.0), (0.0, 100.0)], |_| true);
    // dense windows (+-3%) around every reduction breakpoint: errors that only just exceed the bound
    // tend to sit at the edge of a polynomial's interval
    for _ in 0..e.budget(48_000, 2_400_000) {
        let bp = pk!(e.rng, [0.4375f64, 0.6875, 1.1875, 2.4375, 0.5, 1.0]);
        let u = (e.rng.next() >> 11) as f64 * pow2(-53);
        let hi = bp * (0.97 + 0.06 * u) * if e.rng.coin() { 1.0 } else { -1.0 };
        let (h, l, _) = tf_with_hi(&mut e.rng, hi);
        e.ev("atan", &tf1((h, l)), || v2(t((h, l)).atan()));
        let hi = 0.5 * (0.97 + 0.06 * u) * if e.rng.coin() { 1.0 } else { -1.0 };
        let (h, l, _) = tf_with_hi(&mut e.rng, hi);
        e.ev("asin", &tf1((h, l)), || v2(t((h, l)).asin()));
    }
    for _ in 0..e.budget(120_000, 6_000_000) {
        // log-uniform over the whole large-argument range
        let a = tf_in(&mut e.rng, 1, 59);
        e.ev("atan", &tf1(a), || v2(t(a).atan()));
    }
    for _ in 0..e.budget(40_000, 2_000_000) {
        let a = if e.rng.chance(1, 6) { crate::pools::published_const(&mut e.rng) } else { special_hi(&mut e.rng) };
        e.ev("atan", &tf1(a), || v2(t(a).atan()));
        if a.0.abs() < 1.0 || (a.0.abs() == 1.0 && a.1 * a.0 <= 0.0) {
            e.ev("asin", &tf1(a), || v2(t(a).asin()));
            e.ev("acos", &tf1(a), || v2(t(a).acos()));
        }
        // atan2 with operands sharing the high word or with special high words
        let b = match e.rng.below(3) {
            0 => {
                let sg = e.rng.coin();
                let (h, l, _) = tf_with_hi(&mut e.rng, if sg { a.0 } else { -a.0 });
                (h, l)
            }
            _ => special_hi(&mut e.rng),
        };
        e.ev("atan2", &[hx(a.0), hx(a.1), hx(b.0), hx(b.1)], || v2(t(a).atan2(t(b))));
    }
    let n = e.budget(1_000_000, 100_000_000) / 5;
    for i in 0..n {
        // asin / acos on [-1, 1]
        let x = match i % 8 {
            0 => {
                let h = step(0.5, e.rng.range(-3, 3));
                let (h, l, _) = tf_with_hi(&mut e.rng, h);
                (h, l)
            }
            1 => {
                let k = e.rng.range(1, 100);
                if k <= 52 {
                    let (h, l, _) = tf_with_hi(&mut e.rng, 1.0 - pow2(-k));
                    (h, l)
                } else {
                    (1.0, -pow2(-k))
                }
            }
            2 => (1.0, 0.0),
            3 => tf_in(&mut e.rng, -1000, -10),
            4 => tf_in(&mut e.rng, -10, -2),
            _ => tf_in(&mut e.rng, -2, -1),
        };
        let x = if e.rng.coin() { x } else { (-x.0, -x.1) };
        if valid_ref(x.0, x.1) && (x.0.abs() < 1.0 || (x.0.abs() == 1.0 && x.1 * x.0 <= 0.0)) {
            e.ev("asin", &tf1(x), || v2(t(x).asin()));
            e.ev("acos", &tf1(x), || v2(t(x).acos()));
        }
        // atan: every reduction interval, both sides of the breakpoints
        let a = match i % 8 {
            0 | 1 => {
                let bp = pk!(e.rng, [0.4375, 0.6875, 1.1875, 2.4375, 0.5, 1.0, 1.5]);
                match e.rng.below(3) {
                    0 => {
                        let h = step(bp, e.rng.range(-2, 2));
                        let (h, l, _) = tf_with_hi(&mut e.rng, h);
                        (h, l)
                    }
                    1 => (bp, pow2(-e.rng.range(54, 300)) * if e.rng.coin() { 1.0 } else { -1.0 }),
                    _ => (bp, 0.0),
                }
            }
            2 => tf_in(&mut e.rng, -1000, -3),
            3 => tf_in(&mut e.rng, 2, 59),
            _ => tf_in(&mut e.rng, -3, 3),
        };
        let a = if e.rng.coin() { a } else { (-a.0, -a.1) };
        if valid_ref(a.0, a.1) {
            e.ev("atan", &tf1(a), || v2(t(a).atan()));
        }
        // atan2: non-zero operands in [2^-30, 2^30], all sign combinations
        let y = tf_in(&mut e.rng, -30, 29);
        let xx = match e.rng.below(4) {
            0 => y,
            1 => {
                let ee = (exp_of(y.0) + e.rng.range(-3, 3)).clamp(-30, 29);
                tf_in(&mut e.rng, ee, ee)
            }
            _ => tf_in(&mut e.rng, -30, 29),
        };
        e.ev("atan2", &[hx(y.0), hx(y.1), hx(xx.0), hx(xx.1)], || v2(t(y).atan2(t(xx))));
    }
}

// ------------------------------------------------------------------------------------------
// C18: hyperbolic
// ------------------------------------------------------------------------------------------

pub fn c18(c: &mut Ctx) {
    let ns = c.budget(12_000_000, 1_200_000_000);
    panic_sweep(c, "hyperbolic/panic_sweep", &[|x| x.sinh(), |x| x.tanh(), |x| x.asinh(), |x| x.atanh(), |x| x.acosh()], &[(-1.0, 1.0), (-40.0, 40.0), (-600.0, 600.0), (1.0, 100.0)], -40, 59, false, ns / 5);
    for z in [(0.0, 0.0), (-0.0, 0.0)] {
        for (op, f) in [("sinh", 0u8), ("tanh", 1), ("asinh", 2), ("atanh", 3)] {
            c.note(op, &tf1(z), true);
            expect_exact(c, op, "f(0)", &tf1(z), guard(|| w(match f { 0 => t(z).sinh(), 1 => t(z).tanh(), 2 => t(z).asinh(), _ => t(z).atanh() })), 0.0);
        }
        c.note("cosh", &tf1(z), true);
        expect_exact(c, "cosh", "cosh(0)", &tf1(z), guard(|| w(t(z).cosh())), 1.0);
    }
    c.note("acosh", &tf1((1.0, 0.0)), true);
    expect_exact(c, "acosh", "acosh(1)", &tf1((1.0, 0.0)), guard(|| w(TwoFloat::from(1.0).acosh())), 0.0);
    let n = c.budget(1_000_000, 100_000_000) / 9;
    for i in 0..n {
        // domain errors
        let a = tf_in_or_zero(&mut c.rng, -200, 200);
        if dy(a).lt(&Dy::from_f64(1.0)) {
            c.note("acosh", &tf1(a), true);
            expect_invalid(c, "acosh", "acosh(x<1)", &tf1(a), guard(|| w(t(a).acosh())));
        }
        if dy(a).abs().cmp(&Dy::from_f64(1.0)) != std::cmp::Ordering::Less {
            c.note("atanh", &tf1(a), true);
            expect_invalid(c, "atanh", "atanh(|x|>=1)", &tf1(a), guard(|| w(t(a).atanh())));
        }
        for s in [1.0, -1.0] {
            c.note("atanh", &tf1((s, 0.0)), true);
            expect_invalid(c, "atanh", "atanh(+-1)", &tf1((s, 0.0)), guard(|| w(TwoFloat::from(s).atanh())));
        }
        let below = (1.0, -pow2(-c.rng.range(54, 1000)));
        c.note("acosh", &tf1(below), true);
        expect_invalid(c, "acosh", "acosh(1-tiny)", &tf1(below), guard(|| w(t(below).acosh())));
        // no panics anywhere in the valid domain
        let x = match i % 4 {
            0 => {
                let k = c.rng.range(-1417, 1417);
                let hi = k as f64 * 0.5 + if k >= 0 { 0.25 } else { -0.25 };
                let (h, l, _) = tf_with_hi(&mut c.rng, hi);
                (h, l)
            }
            _ => any_valid(&mut c.rng),
        };
        for (op, f) in [("sinh", 0u8), ("cosh", 1), ("tanh", 2), ("asinh", 3), ("acosh", 4), ("atanh", 5)] {
            c.note(op, &tf1(x), true);
            no_panic(c, op, &tf1(x), || {
                w(match f {
                    0 => t(x).sinh(),
                    1 => t(x).cosh(),
                    2 => t(x).tanh(),
                    3 => t(x).asinh(),
                    4 => t(x).acosh(),
                    _ => t(x).atanh(),
                })
            });
        }
    }
}

pub fn emit_c18(e: &mut Emit) {
    {
        use num_traits::Float as F;
        emit_trait_routes(e, &[("sinh", |x| F::sinh(x)), ("cosh", |x| F::cosh(x)), ("tanh", |x| F::tanh(x)), ("asinh", |x| F::asinh(x))], -30, 9, false);
        emit_trait_routes(e, &[("atanh", |x| F::atanh(x))], -30, -1, false);
        emit_trait_routes(e, &[("acosh", |x| F::acosh(x))], 0, 59, true);
    }
    let nt = e.budget(3_000_000, 300_000_000);
    triage_unary(e, &[("sinh", |x| x.sinh(), |x| x.sinh()), ("cosh", |x| x.cosh(), |x| x.cosh()), ("tanh", |x| x.tanh(), |x| x.tanh())], &Dom { emin: -60, emax: 9, lin: &[0.1, 1.0, 40.0, 600.0], positive: false }, nt / 3);
    triage_unary(e, &[("asinh", |x| x.asinh(), |x| x.asinh())], &Dom { emin: -60, emax: 59, lin: &[1.0, 100.0, 1.0e6], positive: false }, nt / 6);
    triage_unary(e, &[("acosh", |x| x.acosh(), |x| x.acosh())], &Dom { emin: 0, emax: 59, lin: &[2.0, 100.0, 1.0e6], positive: true }, nt / 6);
    triage_unary(e, &[("atanh", |x| x.atanh(), |x| x.atanh())], &Dom { emin: -60, emax: -1, lin: &[0.999, 0.3], positive: false }, nt / 3);
    emit_grid(e, &[("sinh", |x| x.sinh()), ("cosh", |x| x.cosh()), ("tanh", |x| x.tanh()), ("asinh", |x| x.asinh())], &[(0.0, 1.0), (0.0, 40.0), (0.0, 600.0)], |_| true);
    emit_grid(e, &[("atanh", |x| x.atanh())], &[(0.0, 0.999)], |_| true);
    emit_grid(e, &[("acosh", |x| x.acosh())], &[(2.0, 0.9999), (50.0, 48.0)], |a| a.0 > 1.0);
    for _ in 0..e.budget(40_000, 2_000_000) {
        let a = special_hi(&mut e.rng);
        e.ev("sinh", &tf1(a), || v2(t(a).sinh()));
        e.ev("cosh", &tf1(a), || v2(t(a).cosh()));
        e.ev("tanh", &tf1(a), || v2(t(a).tanh()));
        e.ev("asinh", &tf1(a), || v2(t(a).asinh()));
        e.ev("acosh", &tf1(a), || v2(t(a).acosh()));
        e.ev("atanh", &tf1(a), || v2(t(a).atanh()));
    }
    let n = e.budget(1_000_000, 100_000_000) / 6;
    for i in 0..n {
        // direct functions: |x| <= 600, log-uniform from 2^-40, plus the exp-table stratification
        let x = match i % 4 {
            0 => {
                let a = exp_args(e, i / 4);
                if a.0.abs() <= 600.0 {
                    a
                } else {
                    tf_in(&mut e.rng, -40, 9)
                }
            }
            1 => tf_in(&mut e.rng, -40, -1),
            _ => tf_in(&mut e.rng, -40, 9),
        };
        if x.0.abs() <= 600.0 {
            e.ev("sinh", &tf1(x), || v2(t(x).sinh()));
            e.ev("cosh", &tf1(x), || v2(t(x).cosh()));
            e.ev("tanh", &tf1(x), || v2(t(x).tanh()));
        }
        // asinh: |x| <= 2^60, both signs
        let a = tf_in(&mut e.rng, -40, 59);
        e.ev("asinh", &tf1(a), || v2(t(a).asinh()));
        let am = (-a.0, -a.1);
        e.ev("asinh", &tf1(am), || v2(t(am).asinh()));
        // acosh: 1 < x <= 2^60
        let h = match e.rng.below(4) {
            0 => {
                let k = e.rng.range(1, 100);
                if k <= 52 {
                    let (h, l, _) = tf_with_hi(&mut e.rng, 1.0 + pow2(-k));
                    (h, l)
                } else {
                    (1.0, pow2(-k))
                }
            }
            _ => {
                let (h, l) = tf_in(&mut e.rng, 0, 59);
                (h.abs(), if h < 0.0 { -l } else { l })
            }
        };
        if valid_ref(h.0, h.1) && (h.0 > 1.0 || (h.0 == 1.0 && h.1 > 0.0)) {
            e.ev("acosh", &tf1(h), || v2(t(h).acosh()));
        }
        // atanh: |x| <= 1 - 2^-10
        let b = match e.rng.below(4) {
            0 => {
                let (h, l, _) = { let d = e.rng.range(1, 10); tf_with_hi(&mut e.rng, 1.0 - pow2(-d)) };
                (h, l)
            }
            _ => tf_in(&mut e.rng, -40, -1),
        };
        let b = if e.rng.coin() { b } else { (-b.0, -b.1) };
        if valid_ref(b.0, b.1) && b.0.abs() <= 1.0 - pow2(-10) {
            e.ev("atanh", &tf1(b), || v2(t(b).atanh()));
        }
    }
}
