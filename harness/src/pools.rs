//! Operand pools built from the crate's published constants (workload only: fast paths keyed on an
//! exact match with a constant, or on its negation, live exactly here).

use crate::exact::valid_ref;
use crate::gen::*;
use crate::mon_arith::W;
use twofloat::{consts, TwoFloat};

pub fn const_list() -> [TwoFloat; 19] {
    [
        consts::E, consts::FRAC_1_PI, consts::FRAC_2_PI, consts::FRAC_2_SQRT_PI, consts::FRAC_1_SQRT_2, consts::FRAC_PI_2, consts::FRAC_PI_3,
        consts::FRAC_PI_4, consts::FRAC_PI_6, consts::FRAC_PI_8, consts::LN_2, consts::LN_10, consts::LOG2_E, consts::LOG10_E, consts::LOG10_2,
        consts::LOG2_10, consts::PI, consts::SQRT_2, consts::TAU,
    ]
}

/// A published constant, possibly negated, scaled by a power of two, stepped by one low-word ulp,
/// or multiplied by a small integer (through the library: workload only).
pub fn published_const(r: &mut Rng) -> W {
    let l = const_list();
    let k = l[r.below(19) as usize];
    let mut x = (k.hi(), k.lo());
    match r.below(8) {
        0 => {
            let s = pow2(r.range(-8, 8));
            x = (x.0 * s, x.1 * s);
        }
        1 => x = (x.0, step(x.1, if r.coin() { 1 } else { -1 })),
        2 => {
            let m = r.range(2, 12) as f64;
            let y = k * m;
            x = (y.hi(), y.lo());
        }
        _ => {}
    }
    if r.coin() {
        x = (-x.0, -x.1);
    }
    if valid_ref(x.0, x.1) {
        x
    } else {
        (k.hi(), k.lo())
    }
}

/// Integer-valued single-word argument k*m (m from a list of "round" multipliers), any magnitude to 2^45.
pub fn round_integer(r: &mut Rng) -> W {
    let m = pk!(r, [1i64, 15, 45, 90, 180, 360, 10, 100, 1000, 2, 3, 7]);
    let bits = r.below(40);
    let k = (r.next() >> (63 - bits)) as i64 + 1;
    let v = (k as f64) * (m as f64);
    (if r.coin() { v } else { -v }, 0.0)
}
