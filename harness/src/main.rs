//! tfmon — runtime monitors for ajtribick/twofloat (see /verif/DESIGN.md).
//!
//!   tfmon run  <PROP> [--tier quick|thorough] [--seed N] [--threads N] [--scale X] [--out FILE] [--only HASH --shard I]
//!   tfmon emit <PROP> [--tier ..] [--seed N] [--shard I] [--nshards N] [--scale X]     (event log on stdout)
//!   tfmon stream <...>   (C11 differential stream, see mon_c11.rs)

mod ctx;
mod exact;
#[macro_use]
mod gen;
mod mon_arith;
mod mon_base;
#[cfg(feature = "math")]
mod mon_c01;
#[cfg(feature = "math")]
mod mon_c10;
#[cfg(feature = "math")]
mod mon_c11;
mod mon_c12;
mod mon_c20;
mod emit;
#[cfg(feature = "math")]
mod mon_fn;
#[cfg(feature = "math")]
mod mon_pow;
mod pools;

use ctx::{Ctx, TIER_QUICK, TIER_THOROUGH};
use std::io::Write;

#[cfg(feature = "std")]
pub const CFG_FEATURES: &str = "std";
#[cfg(not(feature = "std"))]
pub const CFG_FEATURES: &str = "nostd";

pub fn cfg_name() -> &'static str {
    if !cfg!(feature = "math") {
        return "nomath";
    }
    let soft = cfg!(feature = "soft");
    let chk = cfg!(debug_assertions);
    match (CFG_FEATURES, soft, chk) {
        ("std", false, false) => "std",
        ("std", false, true) => "chk",
        ("std", true, _) => "std+softlibm",
        ("nostd", false, _) => "nostd",
        ("nostd", true, _) => "soft",
        _ => "other",
    }
}

fn run_prop(prop: &str, c: &mut Ctx) -> bool {
    match prop {
        "C02" => mon_arith::c02(c),
        "C03" => mon_arith::c03(c),
        "C04" => mon_arith::c04(c),
        "C05" => mon_arith::c05(c),
        "C19" => mon_arith::c19(c),
        "C06" => mon_base::c06(c),
        "C07" => mon_base::c07(c),
        "C08" => mon_base::c08(c),
        "C09" => mon_base::c09(c),
        #[cfg(feature = "math")]
        "C10" => mon_c10::c10(c),
        "C20" => mon_c20::c20(c),
        #[cfg(feature = "math")]
        "C01" => mon_c01::c01(c),
        #[cfg(feature = "math")]
        "C11" => mon_c11::c11(c),
        "C12" => mon_c12::c12(c),
        #[cfg(feature = "math")]
        "C13" => mon_pow::c13(c),
        #[cfg(feature = "math")]
        "C14" => mon_fn::c14(c),
        #[cfg(feature = "math")]
        "C15" => mon_fn::c15(c),
        #[cfg(feature = "math")]
        "C16" => mon_fn::c16(c),
        #[cfg(feature = "math")]
        "C17" => mon_fn::c17(c),
        #[cfg(feature = "math")]
        "C18" => mon_fn::c18(c),
        _ => return false,
    }
    true
}

fn leak(s: &str) -> &'static str {
    Box::leak(s.to_string().into_boxed_str())
}

struct Args {
    cmd: String,
    prop: String,
    tier: u8,
    seed: u64,
    threads: u64,
    scale: f64,
    out: Option<String>,
    only: Option<u64>,
    shard: Option<u64>,
    nshards: Option<u64>,
    events: Option<u64>,
    log: Option<(u64, u64)>,
}

fn parse_args() -> Args {
    let v: Vec<String> = std::env::args().collect();
    if v.len() < 3 {
        eprintln!("usage: tfmon run|emit <PROP> [options]");
        std::process::exit(2);
    }
    let mut a = Args {
        cmd: v[1].clone(),
        prop: v[2].clone(),
        tier: TIER_QUICK,
        seed: 1,
        threads: 16,
        scale: 1.0,
        out: None,
        only: None,
        shard: None,
        nshards: None,
        events: None,
        log: None,
    };
    let mut i = 3;
    while i < v.len() {
        let val = |i: usize| -> &str {
            if i + 1 >= v.len() {
                eprintln!("missing value for {}", v[i]);
                std::process::exit(2);
            }
            &v[i + 1]
        };
        match v[i].as_str() {
            "--tier" => a.tier = if val(i) == "thorough" { TIER_THOROUGH } else { TIER_QUICK },
            "--seed" => a.seed = val(i).parse().expect("seed"),
            "--threads" => a.threads = val(i).parse().expect("threads"),
            "--scale" => a.scale = val(i).parse().expect("scale"),
            "--out" => a.out = Some(val(i).to_string()),
            "--only" => a.only = Some(u64::from_str_radix(val(i), 16).expect("hash")),
            "--shard" => a.shard = Some(val(i).parse().expect("shard")),
            "--nshards" => a.nshards = Some(val(i).parse().expect("nshards")),
            "--events" => a.events = Some(val(i).parse().expect("events")),
            "--log" => {
                let p: Vec<u64> = val(i).split(',').map(|x| x.parse().expect("log range")).collect();
                a.log = Some((p[0], p[1]));
            }
            x => {
                eprintln!("unknown option {x}");
                std::process::exit(2);
            }
        }
        i += 2;
    }
    a
}

fn main() {
    let a = parse_args();
    ctx::install_panic_hook();
    let prop = leak(&a.prop);
    match a.cmd.as_str() {
        "run" => {
            let nshards = a.nshards.unwrap_or(a.threads);
            let shards: Vec<u64> = match a.shard {
                Some(s) => vec![s],
                None => (0..nshards).collect(),
            };
            let mut handles = Vec::new();
            for s in shards {
                let (tier, seed, scale, only) = (a.tier, a.seed, a.scale, a.only);
                handles.push(
                    std::thread::Builder::new()
                        .stack_size(64 << 20)
                        .spawn(move || {
                            let mut c = Ctx::new(prop, cfg_name(), tier, seed, s, nshards, scale);
                            c.only = only;
                            let known = run_prop(prop, &mut c);
                            (known, c)
                        })
                        .unwrap(),
                );
            }
            let mut total: Option<Ctx> = None;
            let mut ok = true;
            for h in handles {
                match h.join() {
                    Ok((known, c)) => {
                        ok &= known;
                        match total.as_mut() {
                            None => total = Some(c),
                            Some(t) => t.merge(c),
                        }
                    }
                    Err(_) => {
                        eprintln!("HARNESS-ERROR: monitor thread panicked outside the panic monitor");
                        std::process::exit(3);
                    }
                }
            }
            if !ok {
                eprintln!("unknown property {prop}");
                std::process::exit(2);
            }
            let j = total.unwrap().to_json();
            let s = serde_json::to_string(&j).unwrap();
            match a.out {
                Some(p) => std::fs::write(p, s).unwrap(),
                None => {
                    std::io::stdout().write_all(s.as_bytes()).unwrap();
                    println!();
                }
            }
        }
        #[cfg(feature = "math")]
        "stream" => {
            mon_c11::stream(a.seed, a.shard.unwrap_or(0), a.events.unwrap_or(1024), a.log);
        }
        "emit" => {
            let mut e = emit::Emit::new(prop, a.tier, a.seed, a.shard.unwrap_or(0), a.nshards.unwrap_or(1), a.scale);
            match prop {
                "C12" => mon_c12::emit_c12(&mut e),
                #[cfg(feature = "math")]
        "C13" => mon_pow::emit_c13(&mut e),
                #[cfg(feature = "math")]
        "C14" => mon_fn::emit_c14(&mut e),
                #[cfg(feature = "math")]
        "C15" => mon_fn::emit_c15(&mut e),
                #[cfg(feature = "math")]
        "C16" => mon_fn::emit_c16(&mut e),
                #[cfg(feature = "math")]
        "C17" => mon_fn::emit_c17(&mut e),
                #[cfg(feature = "math")]
        "C18" => mon_fn::emit_c18(&mut e),
                _ => {
                    eprintln!("no emitter for {prop}");
                    std::process::exit(2);
                }
            }
            e.finish();
        }
        _ => {
            eprintln!("unknown command");
            std::process::exit(2);
        }
    }
}
