//! Deterministic, integer-only workload generators. No std float intrinsic is
//! called here (only IEEE + - * / and bit manipulation) so that the streams are
//! bit-identical on every substrate (native, no_std, soft libm, Miri).

use crate::exact::valid_ref;

/// Pick one element of a literal array with the given generator.
#[macro_export]
macro_rules! pk {
    ($r:expr, [$($x:expr),* $(,)?]) => {{
        let arr = [$($x),*];
        let i = $r.below(arr.len() as u64) as usize;
        arr[i]
    }};
}

#[derive(Clone)]
pub struct Rng(pub u64);

pub fn mix(mut z: u64) -> u64 {
    z = z.wrapping_add(0x9e3779b97f4a7c15);
    z = (z ^ (z >> 30)).wrapping_mul(0xbf58476d1ce4e5b9);
    z = (z ^ (z >> 27)).wrapping_mul(0x94d049bb133111eb);
    z ^ (z >> 31)
}

impl Rng {
    pub fn new(seed: u64, stream: u64, shard: u64) -> Self {
        Rng(mix(mix(mix(seed) ^ stream.wrapping_mul(0xa0761d6478bd642f)) ^ shard.wrapping_mul(0xe7037ed1a0b428db)))
    }
    pub fn next(&mut self) -> u64 {
        self.0 = self.0.wrapping_add(0x9e3779b97f4a7c15);
        let mut z = self.0;
        z = (z ^ (z >> 30)).wrapping_mul(0xbf58476d1ce4e5b9);
        z = (z ^ (z >> 27)).wrapping_mul(0x94d049bb133111eb);
        z ^ (z >> 31)
    }
    /// uniform in [0, n)
    pub fn below(&mut self, n: u64) -> u64 {
        if n == 0 {
            0
        } else {
            ((self.next() as u128 * n as u128) >> 64) as u64
        }
    }
    /// uniform in [lo, hi] inclusive
    pub fn range(&mut self, lo: i64, hi: i64) -> i64 {
        lo + self.below((hi - lo + 1) as u64) as i64
    }
    pub fn coin(&mut self) -> bool {
        self.next() & 1 == 1
    }
    pub fn chance(&mut self, num: u64, den: u64) -> bool {
        self.below(den) < num
    }
    pub fn pick<'a, T>(&mut self, xs: &'a [T]) -> &'a T {
        &xs[self.below(xs.len() as u64) as usize]
    }
}

pub const MANT_MASK: u64 = (1u64 << 52) - 1;

/// Build a double from sign, unbiased exponent (-1023 => subnormal/zero field) and 52-bit fraction.
pub fn mk(neg: bool, e: i64, frac: u64) -> f64 {
    let be = (e + 1023).clamp(0, 2046) as u64;
    f64::from_bits(((neg as u64) << 63) | (be << 52) | (frac & MANT_MASK))
}

/// 2^k for k in [-1074, 1023].
pub fn pow2(k: i64) -> f64 {
    crate::exact::pow2_f64(k.clamp(-1074, 1023))
}

/// Unbiased exponent of a finite non-zero double (subnormals report their true leading bit).
pub fn exp_of(x: f64) -> i64 {
    let b = x.to_bits();
    let be = ((b >> 52) & 0x7ff) as i64;
    if be == 0 {
        let f = b & MANT_MASK;
        if f == 0 {
            -1075
        } else {
            -1074 + (63 - f.leading_zeros() as i64)
        }
    } else {
        be - 1023
    }
}

/// Exponent of ulp(x) = 2^(e-52) (>= -1074).
pub fn ulp_exp(x: f64) -> i64 {
    let be = ((x.to_bits() >> 52) & 0x7ff) as i64;
    if be == 0 {
        -1074
    } else {
        be - 1075
    }
}

pub fn next_up(x: f64) -> f64 {
    if x.is_nan() || x == f64::INFINITY {
        return x;
    }
    if x == 0.0 {
        return f64::from_bits(1);
    }
    let b = x.to_bits();
    if x > 0.0 {
        f64::from_bits(b + 1)
    } else {
        f64::from_bits(b - 1)
    }
}

pub fn next_down(x: f64) -> f64 {
    -next_up(-x)
}

/// Move x by n units in the last place (n may be negative); stops at +-MAX / crosses zero correctly.
pub fn step(x: f64, n: i64) -> f64 {
    let mut v = x;
    if n >= 0 {
        for _ in 0..n {
            v = next_up(v);
        }
    } else {
        for _ in 0..(-n) {
            v = next_down(v);
        }
    }
    v
}

pub const N_MANT_CLASSES: u64 = 12;

/// 52-bit fraction patterns: the structured cases where rounding proofs are tight.
pub fn mant_class(r: &mut Rng, class: u64) -> u64 {
    match class {
        0 => 0,                                   // power of two
        1 => 1,                                   // one ulp above a power of two
        2 => MANT_MASK,                           // one ulp below the next power of two
        3 => MANT_MASK - 1,
        4 => !((1u64 << r.below(52)) - 1) & MANT_MASK, // only high bits set
        5 => (1u64 << r.below(53)).wrapping_sub(1) & MANT_MASK, // only low bits set
        6 => 0xAAAAAAAAAAAAA & MANT_MASK,
        7 => 0x5555555555555 & MANT_MASK,
        8 => 1u64 << r.below(52),                 // single bit
        9 => (r.next() & MANT_MASK) & !((1u64 << r.below(50)) - 1), // few significant bits
        10 => (r.next() & MANT_MASK) | 1,         // random odd
        _ => r.next() & MANT_MASK,                // random
    }
}

pub fn mant_any(r: &mut Rng) -> u64 {
    let c = if r.chance(1, 2) { 11 } else { r.below(N_MANT_CLASSES) };
    mant_class(r, c)
}

/// Finite normal double with unbiased exponent uniform in [emin, emax] and a structured fraction.
pub fn f64_in(r: &mut Rng, emin: i64, emax: i64) -> f64 {
    let e = match r.below(8) {
        0 => emin,
        1 => emax,
        2 => r.range(emin, (emin + 3).min(emax)),
        3 => r.range((emax - 3).max(emin), emax),
        4 => r.range(-4, 4).clamp(emin, emax),
        _ => r.range(emin, emax),
    };
    let m = mant_any(r);
    mk(r.coin(), e.max(-1022), m)
}

/// Any finite double including zeros and subnormals.
pub fn f64_finite(r: &mut Rng) -> f64 {
    match r.below(16) {
        0 => {
            if r.coin() {
                0.0
            } else {
                -0.0
            }
        }
        1 => {
            // subnormal
            let m = mant_any(r);
            mk(r.coin(), -1023, m)
        }
        2 => mk(r.coin(), r.range(-1022, -1000), mant_any(r)),
        3 => mk(r.coin(), r.range(1000, 1023), mant_any(r)),
        _ => f64_in(r, -1022, 1023),
    }
}

/// Any double bit pattern class including non-finite.
pub fn f64_any(r: &mut Rng) -> f64 {
    match r.below(24) {
        0 => f64::INFINITY,
        1 => f64::NEG_INFINITY,
        2 => f64::NAN,
        3 => f64::from_bits(0x7ff0_0000_0000_0001 | (r.next() & MANT_MASK) | ((r.coin() as u64) << 63)),
        _ => f64_finite(r),
    }
}

pub const N_LO_CLASSES: u64 = 12;

/// Low word for a given finite non-zero high word, by class. The result is NOT guaranteed
/// valid; callers validate with `valid_ref` (see `tf_with_hi`).
pub fn lo_class(r: &mut Rng, hi: f64, class: u64) -> f64 {
    let ue = ulp_exp(hi); // ulp = 2^ue ; half ulp = 2^(ue-1)
    let neg = r.coin();
    let he = ue - 1;
    let p = |k: i64| -> f64 {
        if k < -1074 {
            0.0
        } else {
            pow2(k)
        }
    };
    let v = match class {
        0 => 0.0,
        1 => 0.0, // sign applied below => -0
        2 => p(he),                                 // exactly half ulp (tie)
        3 => p(he - 1),                             // quarter ulp (threshold below a power of two)
        4 => next_down(p(he)),                      // one unit inside the half-ulp threshold
        5 => next_up(p(he)),                        // one unit outside (invalid unless re-validated)
        6 => next_down(p(he - 1)),
        7 => next_up(p(he - 1)),
        8 => {
            // random mantissa d binades below the half-ulp position
            let d = r.range(1, 200);
            let e = he - d;
            if e < -1022 {
                if e < -1074 {
                    f64::from_bits(1)
                } else {
                    // subnormal with random low bits under the leading one
                    let lead = 1u64 << (e + 1074);
                    f64::from_bits(lead | (r.next() & (lead - 1)))
                }
            } else {
                mk(false, e, mant_any(r))
            }
        }
        9 => f64::from_bits(1 + r.below(4)), // smallest subnormals
        10 => {
            // integer / half-integer / quarter low word (interesting under a >= 2^53 high word)
            let k = r.range(1, 1 << 12) as f64;
            let s = *r.pick(&[1.0, 0.5, 0.25, 2.0, 1024.0]);
            k * s
        }
        _ => {
            // random mantissa right under the threshold
            mk(false, he - 1 - r.range(0, 3), r.next() & MANT_MASK)
        }
    };
    if neg || class == 1 {
        -v
    } else {
        v
    }
}

/// A valid TwoFloat with the given high word; low word drawn from the class matrix and
/// validated with the reference predicate (falls back towards smaller low words).
pub fn tf_with_hi(r: &mut Rng, hi: f64) -> (f64, f64, u64) {
    if hi == 0.0 || !hi.is_finite() {
        return (hi, if r.coin() { 0.0 } else { -0.0 }, 0);
    }
    let class = if r.chance(1, 3) { 8 } else { r.below(N_LO_CLASSES) };
    let mut lo = lo_class(r, hi, class);
    for _ in 0..4 {
        if valid_ref(hi, lo) {
            return (hi, lo, class);
        }
        lo *= 0.5;
    }
    (hi, 0.0, 0)
}

/// Valid TwoFloat with |hi| in [2^emin, 2^emax].
pub fn tf_in(r: &mut Rng, emin: i64, emax: i64) -> (f64, f64) {
    let hi = f64_in(r, emin, emax);
    let (h, l, _) = tf_with_hi(r, hi);
    (h, l)
}

/// Valid TwoFloat with |hi| in range or (rarely) zero.
pub fn tf_in_or_zero(r: &mut Rng, emin: i64, emax: i64) -> (f64, f64) {
    if r.chance(1, 40) {
        (if r.coin() { 0.0 } else { -0.0 }, if r.coin() { 0.0 } else { -0.0 })
    } else {
        tf_in(r, emin, emax)
    }
}

pub const N_PAIR_RELS: u64 = 13;

/// Second operand related to the first: the relations where the algorithms' case analyses are tight.
pub fn tf_related(r: &mut Rng, a: (f64, f64), emin: i64, emax: i64, rel: u64) -> (f64, f64) {
    let clampok = |x: (f64, f64)| -> Option<(f64, f64)> {
        if x.0 == 0.0 {
            return Some(x);
        }
        let e = exp_of(x.0);
        if e >= emin && e <= emax && valid_ref(x.0, x.1) {
            Some(x)
        } else {
            None
        }
    };
    let cand: Option<(f64, f64)> = match rel {
        0 => None, // independent
        1 => Some(a),
        2 => Some((-a.0, -a.1)),
        3 => {
            // b = -a perturbed in the high word by k ulps (cancellation depth ~ 52 - log2 k)
            let k = 1i64 << r.below(12);
            let h = -step(a.0, if r.coin() { k } else { -k });
            let (h, l, _) = tf_with_hi(r, h);
            Some((h, l))
        }
        4 => {
            // same high word negated, low word differs (cancellation deeper than 53 bits)
            let l = match r.below(4) {
                0 => -step(a.1, r.range(-3, 3)),
                1 => a.1,
                2 => 0.0,
                _ => {
                    let (_, l, _) = tf_with_hi(r, a.0);
                    l
                }
            };
            if valid_ref(-a.0, l) {
                Some((-a.0, l))
            } else {
                Some((-a.0, -a.1))
            }
        }
        5 => {
            // exponents within +-3
            let e = (exp_of(a.0) + r.range(-3, 3)).clamp(emin, emax);
            let h = mk(r.coin(), e, mant_any(r));
            let (h, l, _) = tf_with_hi(r, h);
            Some((h, l))
        }
        6 => {
            // far apart
            // (one third of the time right where the smaller operand sinks below the 106-bit significand)
            let d = if r.chance(1, 3) { r.range(98, 112) } else { r.range(40, 400) };
            let e = (exp_of(a.0) + if r.coin() { d } else { -d }).clamp(emin, emax);
            let h = mk(r.coin(), e, mant_any(r));
            let (h, l, _) = tf_with_hi(r, h);
            Some((h, l))
        }
        7 => {
            // power of two (or +-1)
            let e = if r.coin() { 0 } else { r.range(emin, emax) };
            Some((mk(r.coin(), e, 0), 0.0))
        }
        8 => Some((0.0, 0.0)),
        9 => {
            // the other operand's high word lies around this one's low word
            if a.1 != 0.0 {
                let e = (exp_of(a.1) + r.range(-2, 2)).clamp(emin, emax);
                let h = mk(r.coin(), e, mant_any(r));
                let (h, l, _) = tf_with_hi(r, h);
                Some((h, l))
            } else {
                None
            }
        }
        12 => {
            // ratio within a few ulps of a power of two: b.hi = a.hi * 2^k stepped (Sterbenz-type boundaries)
            let k = pk!(r, [-2i64, -1, -1, 1, 1, 2]);
            let h = step(a.0 * pow2(k), r.range(-3, 3));
            let h = if r.coin() { h } else { -h };
            let (h, l, _) = tf_with_hi(r, h);
            Some((h, l))
        }
        10 => {
            // same high word, independent low word
            let (h, l, _) = tf_with_hi(r, a.0);
            Some((h, l))
        }
        _ => {
            // small integer / simple fraction
            let k = r.range(1, 64) as f64;
            let s = *r.pick(&[1.0, 0.5, 0.125, 3.0, 10.0]);
            Some((if r.coin() { k * s } else { -k * s }, 0.0))
        }
    };
    match cand.and_then(clampok) {
        Some(b) => b,
        None => tf_in(r, emin, emax),
    }
}

/// A pair of valid TwoFloats in range with a random relation.
pub fn tf_pair(r: &mut Rng, emin: i64, emax: i64) -> ((f64, f64), (f64, f64), u64) {
    let a = tf_in(r, emin, emax);
    let rel = if r.chance(1, 3) { 0 } else { r.below(N_PAIR_RELS) };
    let b = tf_related(r, a, emin, emax, rel);
    if r.coin() {
        (a, b, rel)
    } else {
        (b, a, rel)
    }
}

/// f64 second operand related to a TwoFloat first operand.
pub fn f64_related(r: &mut Rng, a: (f64, f64), emin: i64, emax: i64) -> f64 {
    let b = match r.below(10) {
        0 => a.0,
        1 => -a.0,
        2 => -step(a.0, r.range(-4, 4)),
        3 => mk(r.coin(), r.range(emin, emax), 0),
        4 => {
            if a.1 != 0.0 {
                let e = (exp_of(a.1) + r.range(-2, 2)).clamp(emin, emax);
                mk(r.coin(), e, mant_any(r))
            } else {
                f64_in(r, emin, emax)
            }
        }
        5 => mk(r.coin(), (exp_of(a.0) + r.range(-3, 3)).clamp(emin, emax), mant_any(r)),
        6 => {
            let k = r.range(1, 64) as f64;
            if r.coin() {
                k
            } else {
                -k
            }
        }
        _ => f64_in(r, emin, emax),
    };
    if b == 0.0 || (exp_of(b) >= emin && exp_of(b) <= emax) {
        b
    } else {
        f64_in(r, emin, emax)
    }
}

/// Mutate a TwoFloat slightly (used by the hill-climbing stress search); result validated.
pub fn tf_mutate(r: &mut Rng, a: (f64, f64), emin: i64, emax: i64) -> (f64, f64) {
    for _ in 0..8 {
        let c = match r.below(6) {
            0 => (step(a.0, r.range(-3, 3)), a.1),
            1 => (a.0, step(a.1, r.range(-3, 3))),
            2 => {
                let (h, l, _) = tf_with_hi(r, a.0);
                (h, l)
            }
            3 => (a.0, -a.1),
            4 => {
                let k = pow2(r.range(-8, 8));
                (a.0 * k, a.1 * k)
            }
            _ => (f64::from_bits(a.0.to_bits() ^ (1u64 << r.below(52))), a.1),
        };
        if c.0 != 0.0 && c.0.is_finite() && valid_ref(c.0, c.1) {
            let e = exp_of(c.0);
            if e >= emin && e <= emax {
                return c;
            }
        }
    }
    a
}


/// Integers whose exact value is the first not representable in f64 around 2^53 / 2^54 (odd
/// neighbours of a power of two): N = 2^k + d, with all their divisors below 2^22 (computed once).
fn boundary_table() -> &'static Vec<(u128, Vec<u128>)> {
    static T: std::sync::OnceLock<Vec<(u128, Vec<u128>)>> = std::sync::OnceLock::new();
    T.get_or_init(|| {
        let mut v = Vec::new();
        for (k, d) in [(53u32, 1i128), (53, -1), (53, 3), (54, 1), (54, -1), (55, 1), (64, -3), (106, 5), (52, 1), (53, 5)] {
            let n = ((1i128 << k) + d) as u128;
            let mut divs = Vec::new();
            let mut p = 2u128;
            while p < (1 << 22) {
                if n % p == 0 {
                    divs.push(p);
                }
                p += 1;
            }
            v.push((n, divs));
        }
        v
    })
}

pub fn boundary_int(r: &mut Rng) -> u128 {
    let t = boundary_table();
    t[r.below(t.len() as u64) as usize].0
}

/// A divisor pair (p, q) with p * q == n exactly and p < 2^22 (None if n has no such factor).
pub fn small_factor(r: &mut Rng, n: u128) -> Option<(u128, u128)> {
    let t = boundary_table();
    let divs = &t.iter().find(|e| e.0 == n)?.1;
    if divs.is_empty() {
        None
    } else {
        let p = divs[r.below(divs.len() as u64) as usize];
        Some((p, n / p))
    }
}

/// f64 with a short significand (nbits significant bits) and exponent e.
pub fn short_sig(r: &mut Rng, nbits: u32, e: i64) -> f64 {
    let nb = nbits.clamp(1, 53);
    let m = (r.next() >> (64 - nb)) | (1u64 << (nb - 1)) | if r.coin() { 1 } else { 0 };
    // all-ones significands are where exact-sum/product fast paths go wrong
    let m = if r.chance(1, 3) { (1u64 << nb) - 1 } else { m };
    let v = (m as f64) * pow2((e - (nb as i64 - 1)).clamp(-1074, 1023));
    if r.coin() {
        v
    } else {
        -v
    }
}
