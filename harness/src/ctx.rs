//! Monitor infrastructure: per-thread statistics, violation records, panic monitor.

use crate::gen::{mix, Rng};
use serde_json::{json, Map, Value};
use std::cell::RefCell;
use std::collections::{BTreeMap, BTreeSet, HashSet};
use std::hash::{BuildHasherDefault, Hasher};
use std::panic::{catch_unwind, AssertUnwindSafe};

#[derive(Default)]
pub struct IdHasher(u64);
impl Hasher for IdHasher {
    fn finish(&self) -> u64 {
        self.0
    }
    fn write(&mut self, _b: &[u8]) {
        unreachable!()
    }
    fn write_u64(&mut self, x: u64) {
        self.0 = x;
    }
}
pub type IdSet = HashSet<u64, BuildHasherDefault<IdHasher>>;

thread_local! {
    static LAST_PANIC: RefCell<String> = RefCell::new(String::new());
}

/// Install a panic hook that records the message instead of printing it.
pub fn install_panic_hook() {
    std::panic::set_hook(Box::new(|info| {
        let msg = if let Some(s) = info.payload().downcast_ref::<&str>() {
            s.to_string()
        } else if let Some(s) = info.payload().downcast_ref::<String>() {
            s.clone()
        } else {
            "panic".to_string()
        };
        let loc = info
            .location()
            .map(|l| format!(" at {}:{}", l.file().rsplit('/').next().unwrap_or(""), l.line()))
            .unwrap_or_default();
        LAST_PANIC.with(|p| *p.borrow_mut() = format!("{msg}{loc}"));
    }));
}

/// Run a call of the library under the panic monitor.
pub fn guard<T>(f: impl FnOnce() -> T) -> Result<T, String> {
    match catch_unwind(AssertUnwindSafe(f)) {
        Ok(v) => Ok(v),
        Err(_) => Err(LAST_PANIC.with(|p| p.borrow().clone())),
    }
}

#[derive(Clone, Debug)]
pub struct Viol {
    pub op: String,
    pub kind: &'static str,
    pub ins: Vec<u64>,
    pub outs: Vec<u64>,
    pub detail: String,
    pub hash: u64,
    pub shard: u64,
}

#[derive(Default, Clone)]
pub struct OpStat {
    pub n: u64,
    pub max_ratio: f64,
    pub worst: Vec<u64>,
    pub bound: &'static str,
}

pub const TIER_QUICK: u8 = 0;
pub const TIER_THOROUGH: u8 = 1;

pub struct Ctx {
    pub prop: &'static str,
    pub cfg: &'static str,
    pub tier: u8,
    pub seed: u64,
    pub shard: u64,
    pub nshards: u64,
    pub scale: f64,
    pub rng: Rng,
    pub evals: u64,
    pub ops: BTreeMap<&'static str, OpStat>,
    pub distinct: IdSet,
    pub distinct_cap: usize,
    pub distinct_saturated: bool,
    pub samples: BTreeMap<&'static str, Vec<Value>>,
    pub viols: Vec<Viol>,
    pub viol_total: u64,
    pub viol_keys: BTreeMap<(String, &'static str), u64>,
    pub panics: u64,
    pub cells: BTreeSet<String>,
    pub counters: BTreeMap<&'static str, u64>,
    pub extra: Map<String, Value>,
    pub only: Option<u64>,
    pub only_seen: u64,
    pub xlog: Vec<String>,
    pub xcount: u64,
}

pub fn hx(x: f64) -> u64 {
    x.to_bits()
}

pub fn event_hash(op: &str, ins: &[u64]) -> u64 {
    let mut h = 0xcbf29ce484222325u64;
    for b in op.bytes() {
        h = (h ^ b as u64).wrapping_mul(0x100000001b3);
    }
    for &w in ins {
        h = mix(h ^ w);
    }
    mix(h)
}

impl Ctx {
    pub fn new(prop: &'static str, cfg: &'static str, tier: u8, seed: u64, shard: u64, nshards: u64, scale: f64) -> Self {
        let stream = prop.bytes().fold(0u64, |a, b| a * 131 + b as u64);
        Ctx {
            prop,
            cfg,
            tier,
            seed,
            shard,
            nshards,
            scale,
            rng: Rng::new(seed, stream, shard),
            evals: 0,
            ops: BTreeMap::new(),
            distinct: IdSet::default(),
            distinct_cap: if tier == TIER_QUICK { 1 << 21 } else { 1 << 23 },
            distinct_saturated: false,
            samples: BTreeMap::new(),
            viols: Vec::new(),
            viol_total: 0,
            viol_keys: BTreeMap::new(),
            panics: 0,
            cells: BTreeSet::new(),
            counters: BTreeMap::new(),
            extra: Map::new(),
            only: None,
            only_seen: 0,
            xlog: Vec::new(),
            xcount: 0,
        }
    }

    /// Budget helper: `quick` or `thorough` event count for this shard, scaled.
    pub fn budget(&self, quick: u64, thorough: u64) -> u64 {
        let total = if self.tier == TIER_QUICK { quick } else { thorough };
        (((total as f64) * self.scale) as u64 / self.nshards.max(1)).max(1)
    }

    /// Record one judged call. `nontrivial` per the property's rule.
    pub fn note(&mut self, op: &'static str, ins: &[u64], nontrivial: bool) -> u64 {
        self.evals += 1;
        self.ops.entry(op).or_default().n += 1;
        let h = event_hash(op, ins);
        if nontrivial {
            if self.distinct.len() < self.distinct_cap {
                self.distinct.insert(h);
            } else {
                self.distinct_saturated = true;
            }
        }
        if self.only == Some(h) {
            self.only_seen += 1;
        }
        h
    }

    /// Sample of judged events for the independent Fraction re-check (oracle cross-check).
    pub fn xsample(&mut self, form: &str, op: &str, p: u64, q: i64, ins: &[u64], outs: &[u64], ok: bool) {
        self.xcount += 1;
        if self.xcount % 257 == 0 && self.xlog.len() < 1500 {
            let f = |w: &[u64]| w.iter().map(|x| format!("{x:016x}")).collect::<Vec<_>>().join(",");
            self.xlog.push(format!("{form} {op} {p} {q} {} {} {}", f(ins), f(outs), ok as u8));
        }
    }

    pub fn count(&mut self, key: &'static str) {
        *self.counters.entry(key).or_insert(0) += 1;
    }

    pub fn ratio(&mut self, op: &'static str, bound: &'static str, ratio: f64, ins: &[u64]) {
        let s = self.ops.entry(op).or_default();
        s.bound = bound;
        if ratio > s.max_ratio {
            s.max_ratio = ratio;
            s.worst = ins.to_vec();
        }
    }

    pub fn sample(&mut self, op: &'static str, v: impl FnOnce() -> Value) {
        let s = self.samples.entry(op).or_default();
        if s.len() < 2 {
            s.push(v());
        }
    }

    pub fn viol(&mut self, op: &str, kind: &'static str, ins: &[u64], outs: &[u64], detail: String) {
        let h = event_hash(op, ins);
        if let Some(o) = self.only {
            if o != h {
                return;
            }
        }
        self.viol_total += 1;
        let k = self.viol_keys.entry((op.to_string(), kind)).or_insert(0);
        *k += 1;
        if *k <= 12 {
            self.viols.push(Viol {
                op: op.to_string(),
                kind,
                ins: ins.to_vec(),
                outs: outs.to_vec(),
                detail,
                hash: h,
                shard: self.shard,
            });
        }
    }

    pub fn cell(&mut self, c: String) {
        if self.cells.len() < 4096 {
            self.cells.insert(c);
        }
    }

    pub fn merge(&mut self, o: Ctx) {
        self.evals += o.evals;
        for (k, v) in o.ops {
            let s = self.ops.entry(k).or_default();
            s.n += v.n;
            if v.bound != "" {
                s.bound = v.bound;
            }
            if v.max_ratio > s.max_ratio {
                s.max_ratio = v.max_ratio;
                s.worst = v.worst;
            }
        }
        self.distinct_saturated |= o.distinct_saturated;
        for h in o.distinct {
            self.distinct.insert(h);
        }
        for (k, v) in o.samples {
            let s = self.samples.entry(k).or_default();
            for x in v {
                if s.len() < 2 {
                    s.push(x);
                }
            }
        }
        self.viol_total += o.viol_total;
        for (k, v) in o.viol_keys {
            *self.viol_keys.entry(k).or_insert(0) += v;
        }
        self.viols.extend(o.viols);
        self.panics += o.panics;
        self.cells.extend(o.cells);
        for (k, v) in o.counters {
            *self.counters.entry(k).or_insert(0) += v;
        }
        for (k, v) in o.extra {
            // numeric extras are summed, others keep the first
            match (self.extra.get(&k).and_then(|x| x.as_u64()), v.as_u64()) {
                (Some(a), Some(b)) => {
                    self.extra.insert(k, json!(a + b));
                }
                (None, _) if !self.extra.contains_key(&k) => {
                    self.extra.insert(k, v);
                }
                _ => {}
            }
        }
        self.only_seen += o.only_seen;
        self.xlog.extend(o.xlog);
    }

    pub fn to_json(&self) -> Value {
        let ops: Map<String, Value> = self
            .ops
            .iter()
            .map(|(k, v)| {
                let mut m = Map::new();
                m.insert("n".into(), json!(v.n));
                if v.bound != "" {
                    m.insert("bound".into(), json!(v.bound));
                    m.insert("max_err_over_bound".into(), json!(v.max_ratio));
                    m.insert(
                        "worst_input".into(),
                        json!(v.worst.iter().map(|w| format!("{w:016x}")).collect::<Vec<_>>()),
                    );
                }
                (k.to_string(), Value::Object(m))
            })
            .collect();
        let viols: Vec<Value> = self
            .viols
            .iter()
            .map(|v| {
                json!({
                    "property": self.prop,
                    "cfg": self.cfg,
                    "op": v.op,
                    "kind": v.kind,
                    "inputs": v.ins.iter().map(|w| format!("{w:016x}")).collect::<Vec<_>>(),
                    "outputs": v.outs.iter().map(|w| format!("{w:016x}")).collect::<Vec<_>>(),
                    "inputs_f64": v.ins.iter().map(|w| fmt_word(*w)).collect::<Vec<_>>(),
                    "outputs_f64": v.outs.iter().map(|w| fmt_word(*w)).collect::<Vec<_>>(),
                    "detail": v.detail,
                    "hash": format!("{:016x}", v.hash),
                    "shard": v.shard,
                    "nshards": self.nshards,
                })
            })
            .collect();
        let mut samples = Vec::new();
        for (k, v) in &self.samples {
            for x in v {
                samples.push(json!({"op": k, "case": x}));
            }
        }
        json!({
            "property": self.prop,
            "cfg": self.cfg,
            "tier": if self.tier == TIER_QUICK { "quick" } else { "thorough" },
            "seed": self.seed,
            "evaluations": self.evals,
            "distinct_nontrivial": self.distinct.len(),
            "distinct_saturated": self.distinct_saturated,
            "ops": ops,
            "samples": samples,
            "violations_total": self.viol_total,
            "violation_keys": self.viol_keys.iter().map(|((o, k), n)| json!({"op": o, "kind": k, "count": n})).collect::<Vec<_>>(),
            "violations": viols,
            "panics": self.panics,
            "cells": self.cells.iter().collect::<Vec<_>>(),
            "counters": self.counters,
            "extra": self.extra,
            "only_seen": self.only_seen,
            "xcheck": self.xlog,
        })
    }
}

/// Human-readable rendering of a 64-bit word as a double (hex-float style).
pub fn fmt_word(w: u64) -> String {
    let x = f64::from_bits(w);
    if x.is_nan() {
        return "NaN".into();
    }
    if x.is_infinite() {
        return if x > 0.0 { "inf".into() } else { "-inf".into() };
    }
    let neg = w >> 63 == 1;
    let be = ((w >> 52) & 0x7ff) as i64;
    let frac = w & ((1u64 << 52) - 1);
    let s = if neg { "-" } else { "" };
    if be == 0 {
        if frac == 0 {
            format!("{s}0x0p+0")
        } else {
            format!("{s}0x0.{frac:013x}p-1022")
        }
    } else {
        format!("{s}0x1.{frac:013x}p{:+}", be - 1023)
    }
}

pub fn words(xs: &[f64]) -> Vec<u64> {
    xs.iter().map(|x| x.to_bits()).collect()
}
