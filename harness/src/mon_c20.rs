//! C20: text output (Display / LowerExp / UpperExp) and serde.

use crate::ctx::{guard, hx, Ctx};
use crate::exact::valid_ref;
use crate::gen::*;
use crate::mon_arith::{t, W};
use serde::de::value::{Error as VErr, MapDeserializer, SeqDeserializer};
use serde::Deserialize;
use serde_json::json;
use twofloat::TwoFloat;

fn fmt_tf(x: &TwoFloat, tr: u8, plus: bool, prec: Option<usize>) -> String {
    match (tr, plus, prec) {
        (0, false, None) => format!("{}", x),
        (0, true, None) => format!("{:+}", x),
        (0, false, Some(p)) => format!("{:.*}", p, x),
        (0, true, Some(p)) => format!("{:+.*}", p, x),
        (1, false, None) => format!("{:e}", x),
        (1, true, None) => format!("{:+e}", x),
        (1, false, Some(p)) => format!("{:.*e}", p, x),
        (1, true, Some(p)) => format!("{:+.*e}", p, x),
        (_, false, None) => format!("{:E}", x),
        (_, true, None) => format!("{:+E}", x),
        (_, false, Some(p)) => format!("{:.*E}", p, x),
        (_, true, Some(p)) => format!("{:+.*E}", p, x),
    }
}
fn fmt_f64(x: f64, tr: u8, plus: bool, prec: Option<usize>) -> String {
    match (tr, plus, prec) {
        (0, false, None) => format!("{}", x),
        (0, true, None) => format!("{:+}", x),
        (0, false, Some(p)) => format!("{:.*}", p, x),
        (0, true, Some(p)) => format!("{:+.*}", p, x),
        (1, false, None) => format!("{:e}", x),
        (1, true, None) => format!("{:+e}", x),
        (1, false, Some(p)) => format!("{:.*e}", p, x),
        (1, true, Some(p)) => format!("{:+.*e}", p, x),
        (_, false, None) => format!("{:E}", x),
        (_, true, None) => format!("{:+E}", x),
        (_, false, Some(p)) => format!("{:.*E}", p, x),
        (_, true, Some(p)) => format!("{:+.*E}", p, x),
    }
}
const TRAIT_NAMES: [&str; 3] = ["Display", "LowerExp", "UpperExp"];
const OPS_PLAIN: [&str; 3] = ["fmt/Display", "fmt/LowerExp", "fmt/UpperExp"];
const OPS_PREC: [&str; 3] = ["fmt/Display.p", "fmt/LowerExp.p", "fmt/UpperExp.p"];

pub fn c20_format(c: &mut Ctx, a: W, precs: &[usize]) {
    let ins = [hx(a.0), hx(a.1)];
    let ta = t(a);
    let sign = if a.1.is_sign_negative() { "-" } else { "+" };
    let alo = f64::from_bits(a.1.to_bits() & 0x7fff_ffff_ffff_ffff);
    for tr in 0..3u8 {
        for plus in [false, true] {
            let op = OPS_PLAIN[tr as usize];
            c.note(op, &[ins[0], ins[1], plus as u64], a.0 != 0.0);
            match guard(|| fmt_tf(&ta, tr, plus, None)) {
                Err(m) => c.viol(op, "panic", &ins, &[], m),
                Ok(s) => {
                    let toks: Vec<&str> = s.split(' ').collect();
                    let mut bad: Option<String> = None;
                    if toks.len() != 3 {
                        bad = Some(format!("expected '<hi> <sign> <|lo|>', got {} tokens", toks.len()));
                    } else {
                        if toks[1] != sign {
                            bad = Some(format!("sign character '{}' but the sign bit of lo says '{}'", toks[1], sign));
                        }
                        match toks[0].parse::<f64>() {
                            Ok(v) if v.to_bits() == a.0.to_bits() => {}
                            _ => bad = Some("first numeral does not parse back to hi exactly".into()),
                        }
                        match toks[2].parse::<f64>() {
                            Ok(v) if v.to_bits() == alo.to_bits() => {}
                            _ => bad = Some("second numeral does not parse back to |lo| exactly".into()),
                        }
                        if plus && !(toks[0].starts_with('+') || toks[0].starts_with('-')) {
                            bad = Some("'+' flag: first numeral has no explicit sign".into());
                        }
                        if toks[2].starts_with('-') || toks[2].starts_with('+') {
                            bad = Some("second numeral carries a sign".into());
                        }
                    }
                    if let Some(b) = bad {
                        c.viol(op, "format", &ins, &[], format!("{}{}: {b}; output {s:?}", TRAIT_NAMES[tr as usize], if plus { " with +" } else { "" }));
                    }
                    c.sample(op, || json!({"hi": a.0, "lo": a.1, "plus": plus, "output": s}));
                }
            }
            for &p in precs {
                let op = OPS_PREC[tr as usize];
                c.note(op, &[ins[0], ins[1], plus as u64, p as u64], a.0 != 0.0);
                let want = format!("{} {} {}", fmt_f64(a.0, tr, plus, Some(p)), sign, fmt_f64(alo, tr, false, Some(p)));
                match guard(|| fmt_tf(&ta, tr, plus, Some(p))) {
                    Err(m) => c.viol(op, "panic", &ins, &[p as u64], m),
                    Ok(s) => {
                        if s != want {
                            let cut = |x: &str| x.chars().take(80).collect::<String>();
                            c.viol(op, "format", &ins, &[p as u64], format!("{} precision {p}{}: got {:?}, f64 renderings give {:?}", TRAIT_NAMES[tr as usize], if plus { " with +" } else { "" }, cut(&s), cut(&want)));
                        }
                    }
                }
            }
        }
    }
}

fn same_bits(x: &TwoFloat, a: W) -> bool {
    x.hi().to_bits() == a.0.to_bits() && x.lo().to_bits() == a.1.to_bits()
}

fn expect_de(c: &mut Ctx, op: &'static str, what: &str, ins: &[u64], a: W, res: Result<Result<TwoFloat, String>, String>, want_ok: bool) {
    match res {
        Err(m) => c.viol(op, "panic", ins, &[], format!("{what}: {m}")),
        Ok(Ok(v)) => {
            if !want_ok {
                c.viol(op, "accepted_invalid", ins, &[hx(v.hi()), hx(v.lo())], format!("{what}: input must be rejected but produced a TwoFloat (is_valid = {})", v.is_valid()));
            } else if !same_bits(&v, a) {
                c.viol(op, "roundtrip", ins, &[hx(v.hi()), hx(v.lo())], format!("{what}: words not bit-identical after deserialisation"));
            }
        }
        Ok(Err(e)) => {
            if want_ok {
                c.viol(op, "rejected_valid", ins, &[], format!("{what}: valid input rejected: {e}"));
            }
        }
    }
}

fn de_seq(v: Vec<f64>) -> Result<TwoFloat, String> {
    let d = SeqDeserializer::<_, VErr>::new(v.into_iter());
    TwoFloat::deserialize(d).map_err(|e| e.to_string())
}
fn de_map(v: Vec<(&'static str, f64)>) -> Result<TwoFloat, String> {
    let d = MapDeserializer::<_, VErr>::new(v.into_iter());
    TwoFloat::deserialize(d).map_err(|e| e.to_string())
}

pub fn c20_serde(c: &mut Ctx, a: W) {
    let ins = [hx(a.0), hx(a.1)];
    let valid = valid_ref(a.0, a.1);
    c.note("serde/de", &ins, a.0 != 0.0);
    expect_de(c, "serde/de", "sequence [hi, lo]", &ins, a, guard(|| de_seq(vec![a.0, a.1])), valid);
    expect_de(c, "serde/de", "map {hi, lo}", &ins, a, guard(|| de_map(vec![("hi", a.0), ("lo", a.1)])), valid);
    expect_de(c, "serde/de", "map {lo, hi}", &ins, a, guard(|| de_map(vec![("lo", a.1), ("hi", a.0)])), valid);
    // the in-place route must validate like the ordinary one
    {
        let mut place = TwoFloat::from(7.0);
        let r = guard(|| {
            let d = SeqDeserializer::<_, VErr>::new(vec![a.0, a.1].into_iter());
            let res = <TwoFloat as Deserialize>::deserialize_in_place(d, &mut place).map_err(|e| e.to_string());
            (res, place)
        });
        match r {
            Err(m) => c.viol("serde/in_place", "panic", &ins, &[], m),
            Ok((res, pl)) => {
                if !valid_ref(pl.hi(), pl.lo()) {
                    c.viol("serde/in_place", "accepted_invalid", &ins, &[hx(pl.hi()), hx(pl.lo())], "deserialize_in_place left an invalid TwoFloat in the target".into());
                } else if res.is_ok() && !(valid && same_bits(&pl, a)) {
                    c.viol("serde/in_place", "roundtrip", &ins, &[hx(pl.hi()), hx(pl.lo())], "deserialize_in_place succeeded but the target does not hold the presented valid words".into());
                } else if res.is_err() && valid {
                    c.viol("serde/in_place", "rejected_valid", &ins, &[], "deserialize_in_place rejected a valid pair".into());
                }
            }
        }
        let mut place2 = TwoFloat::from(7.0);
        let r = guard(|| {
            let d = MapDeserializer::<_, VErr>::new(vec![("lo", a.1), ("hi", a.0)].into_iter());
            let res = <TwoFloat as Deserialize>::deserialize_in_place(d, &mut place2).map_err(|e| e.to_string());
            (res, place2)
        });
        if let Ok((res, pl)) = r {
            if !valid_ref(pl.hi(), pl.lo()) || (res.is_ok() && !(valid && same_bits(&pl, a))) {
                c.viol("serde/in_place", "accepted_invalid", &ins, &[hx(pl.hi()), hx(pl.lo())], "deserialize_in_place (map form) produced an invalid or wrong value".into());
            }
        }
    }
    // malformed field sets are rejected whatever the words are
    c.note("serde/malformed", &ins, true);
    expect_de(c, "serde/malformed", "missing lo", &ins, a, guard(|| de_map(vec![("hi", a.0)])), false);
    expect_de(c, "serde/malformed", "missing hi", &ins, a, guard(|| de_map(vec![("lo", a.1)])), false);
    expect_de(c, "serde/malformed", "duplicate hi", &ins, a, guard(|| de_map(vec![("hi", a.0), ("hi", a.0), ("lo", a.1)])), false);
    expect_de(c, "serde/malformed", "duplicate lo", &ins, a, guard(|| de_map(vec![("hi", a.0), ("lo", a.1), ("lo", a.1)])), false);
    for special in [f64::NAN, 0.0, f64::INFINITY, -0.0] {
        expect_de(c, "serde/malformed", "duplicate hi (special first)", &ins, a, guard(|| de_map(vec![("hi", special), ("hi", a.0), ("lo", a.1)])), false);
        expect_de(c, "serde/malformed", "duplicate lo (special first)", &ins, a, guard(|| de_map(vec![("hi", a.0), ("lo", special), ("lo", a.1)])), false);
        expect_de(c, "serde/malformed", "duplicate lo (special last)", &ins, a, guard(|| de_map(vec![("lo", a.1), ("hi", a.0), ("lo", special)])), false);
    }
    expect_de(c, "serde/malformed", "unknown field", &ins, a, guard(|| de_map(vec![("hi", a.0), ("lo", a.1), ("x", 0.0)])), false);
    expect_de(c, "serde/malformed", "unknown field first", &ins, a, guard(|| de_map(vec![("mid", 0.0), ("hi", a.0), ("lo", a.1)])), false);
    // near-miss field names and non-string field identifiers are unknown fields too
    expect_de(c, "serde/malformed", "capitalised names", &ins, a, guard(|| de_map(vec![("Hi", a.0), ("Lo", a.1)])), false);
    expect_de(c, "serde/malformed", "upper-case names", &ins, a, guard(|| de_map(vec![("HI", a.0), ("LO", a.1)])), false);
    expect_de(c, "serde/malformed", "hi + Lo", &ins, a, guard(|| de_map(vec![("hi", a.0), ("Lo", a.1)])), false);
    expect_de(c, "serde/malformed", "padded name", &ins, a, guard(|| de_map(vec![("hi ", a.0), ("lo", a.1)])), false);
    expect_de(c, "serde/malformed", "extra capitalised field", &ins, a, guard(|| de_map(vec![("hi", a.0), ("lo", a.1), ("Hi", a.0)])), false);
    // field *indices* 0/1 are a legitimate alternative identifier in serde: either rejected, or accepted
    // with exactly the presented (valid) words
    match guard(|| TwoFloat::deserialize(MapDeserializer::<_, VErr>::new(vec![(0u64, a.0), (1u64, a.1)].into_iter())).map_err(|e| e.to_string())) {
        Err(m) => c.viol("serde/malformed", "panic", &ins, &[], format!("integer keys: {m}")),
        Ok(Ok(v)) if !(valid && same_bits(&v, a)) => c.viol("serde/malformed", "accepted_invalid", &ins, &[hx(v.hi()), hx(v.lo())], "integer keys 0/1: accepted but the value is invalid or differs from the presented words".into()),
        _ => {}
    }
    expect_de(c, "serde/malformed", "integer keys with extra", &ins, a, guard(|| TwoFloat::deserialize(MapDeserializer::<_, VErr>::new(vec![(0u64, a.0), (1u64, a.1), (7u64, 0.0)].into_iter())).map_err(|e| e.to_string())), false);
    expect_de(c, "serde/malformed", "byte-string keys with extra", &ins, a, guard(|| TwoFloat::deserialize(MapDeserializer::<_, VErr>::new(vec![(serde::de::value::BytesDeserializer::<VErr>::new(b"hi"), a.0), (serde::de::value::BytesDeserializer::<VErr>::new(b"mid"), 0.0), (serde::de::value::BytesDeserializer::<VErr>::new(b"lo"), a.1)].into_iter())).map_err(|e| e.to_string())), false);
    expect_de(c, "serde/malformed", "1-sequence", &ins, a, guard(|| de_seq(vec![a.0])), false);
    expect_de(c, "serde/malformed", "empty sequence", &ins, a, guard(|| de_seq(vec![])), false);
    expect_de(c, "serde/malformed", "empty map", &ins, a, guard(|| de_map(vec![])), false);

    // scalar inputs (a bare number, string, unit, bool) are no TwoFloat encoding; whatever the
    // deserializer does with them, it must never hand out an invalid value
    {
        use serde::de::value::{BoolDeserializer, F64Deserializer, I64Deserializer, StrDeserializer, U64Deserializer, UnitDeserializer};
        let scalar: Vec<(&str, Result<Result<TwoFloat, String>, String>)> = vec![
            ("bare f64 hi", guard(|| TwoFloat::deserialize(F64Deserializer::<VErr>::new(a.0)).map_err(|e| e.to_string()))),
            ("bare f64 lo", guard(|| TwoFloat::deserialize(F64Deserializer::<VErr>::new(a.1)).map_err(|e| e.to_string()))),
            ("bare f64 inf", guard(|| TwoFloat::deserialize(F64Deserializer::<VErr>::new(f64::INFINITY)).map_err(|e| e.to_string()))),
            ("bare f64 nan", guard(|| TwoFloat::deserialize(F64Deserializer::<VErr>::new(f64::NAN)).map_err(|e| e.to_string()))),
            ("bare u64", guard(|| TwoFloat::deserialize(U64Deserializer::<VErr>::new(a.0.to_bits())).map_err(|e| e.to_string()))),
            ("bare i64", guard(|| TwoFloat::deserialize(I64Deserializer::<VErr>::new(a.1.to_bits() as i64)).map_err(|e| e.to_string()))),
            ("bare str", guard(|| TwoFloat::deserialize(StrDeserializer::<VErr>::new("1.0")).map_err(|e| e.to_string()))),
            ("unit", guard(|| TwoFloat::deserialize(UnitDeserializer::<VErr>::new()).map_err(|e| e.to_string()))),
            ("bool", guard(|| TwoFloat::deserialize(BoolDeserializer::<VErr>::new(true)).map_err(|e| e.to_string()))),
        ];
        c.note("serde/scalar", &ins, true);
        for (what, r) in scalar {
            match r {
                Err(m) => c.viol("serde/scalar", "panic", &ins, &[], format!("{what}: {m}")),
                Ok(Ok(v)) if !valid_ref(v.hi(), v.lo()) => c.viol("serde/scalar", "invalid_value_created", &ins, &[hx(v.hi()), hx(v.lo())], format!("{what}: deserialisation produced an invalid TwoFloat")),
                _ => {}
            }
        }
    }
    if valid {
        // serialisation: struct TwoFloat { hi, lo } in that order with the exact words
        let ta = t(a);
        c.note("serde/ser", &ins, a.0 != 0.0);
        match guard(|| serde_json::to_string(&ta).map_err(|e| e.to_string())) {
            Err(m) => c.viol("serde/ser", "panic", &ins, &[], m),
            Ok(Err(e)) => c.viol("serde/ser", "error", &ins, &[], e),
            Ok(Ok(s)) => {
                let ok = (|| {
                    let body = s.strip_prefix("{\"hi\":")?.strip_suffix('}')?;
                    let (h, l) = body.split_once(",\"lo\":")?;
                    let (h, l) = (h.parse::<f64>().ok()?, l.parse::<f64>().ok()?);
                    Some(h.to_bits() == a.0.to_bits() && l.to_bits() == a.1.to_bits())
                })();
                if ok != Some(true) {
                    c.viol("serde/ser", "shape", &ins, &[], format!("expected {{\"hi\":<hi>,\"lo\":<lo>}} with exact words, got {s}"));
                }
                c.sample("serde/ser", || json!({"hi": a.0, "lo": a.1, "json": s}));
                // and back through serde_json in the three shapes
                let num = |x: f64| serde_json::to_string(&x).unwrap();
                let shapes = [
                    ("json object", s.clone()),
                    ("json array", format!("[{},{}]", num(a.0), num(a.1))),
                    ("json object lo first", format!("{{\"lo\":{},\"hi\":{}}}", num(a.1), num(a.0))),
                ];
                for (what, txt) in shapes {
                    expect_de(c, "serde/json", what, &ins, a, guard(|| serde_json::from_str::<TwoFloat>(&txt).map_err(|e| e.to_string())), true);
                }
            }
        }
        // token-level structure (struct name and length) through a recording serializer
        match guard(|| record_ser(&ta)) {
            Err(m) => c.viol("serde/ser", "panic", &ins, &[], m),
            Ok(rec) => {
                let want = format!("struct TwoFloat len=2;field hi f64:{:016x};field lo f64:{:016x};end", a.0.to_bits(), a.1.to_bits());
                if rec != want {
                    c.viol("serde/ser", "tokens", &ins, &[], format!("serializer saw {rec:?}, expected {want:?}"));
                }
            }
        }
    } else if a.0.is_finite() && a.1.is_finite() {
        // overlapping finite pair through JSON as well
        let num = |x: f64| serde_json::to_string(&x).unwrap();
        let shapes = [
            ("json object (overlapping)", format!("{{\"hi\":{},\"lo\":{}}}", num(a.0), num(a.1))),
            ("json array (overlapping)", format!("[{},{}]", num(a.0), num(a.1))),
        ];
        for (what, txt) in shapes {
            expect_de(c, "serde/json", what, &ins, a, guard(|| serde_json::from_str::<TwoFloat>(&txt).map_err(|e| e.to_string())), false);
        }
    }
}

// ---- minimal recording Serializer -----------------------------------------------------------

use serde::ser::{self, Impossible, Serialize, SerializeStruct, Serializer};

#[derive(Debug)]
struct RecErr(String);
impl std::fmt::Display for RecErr {
    fn fmt(&self, f: &mut std::fmt::Formatter) -> std::fmt::Result {
        f.write_str(&self.0)
    }
}
impl std::error::Error for RecErr {}
impl ser::Error for RecErr {
    fn custom<T: std::fmt::Display>(m: T) -> Self {
        RecErr(m.to_string())
    }
}

struct Rec<'a>(&'a mut String);
struct RecStruct<'a>(&'a mut String);
struct F64Only<'a>(&'a mut String);

macro_rules! unsupported {
    ($($m:ident($($t:ty),*)),*) => { $(fn $m(self, $(_: $t),*) -> Result<Self::Ok, RecErr> { Err(RecErr(concat!("unexpected ", stringify!($m)).into())) })* };
}

impl<'a> Serializer for Rec<'a> {
    type Ok = ();
    type Error = RecErr;
    type SerializeSeq = Impossible<(), RecErr>;
    type SerializeTuple = Impossible<(), RecErr>;
    type SerializeTupleStruct = Impossible<(), RecErr>;
    type SerializeTupleVariant = Impossible<(), RecErr>;
    type SerializeMap = Impossible<(), RecErr>;
    type SerializeStruct = RecStruct<'a>;
    type SerializeStructVariant = Impossible<(), RecErr>;
    unsupported!(serialize_bool(bool), serialize_i8(i8), serialize_i16(i16), serialize_i32(i32), serialize_i64(i64), serialize_u8(u8), serialize_u16(u16), serialize_u32(u32), serialize_u64(u64), serialize_f32(f32), serialize_f64(f64), serialize_char(char), serialize_str(&str), serialize_bytes(&[u8]), serialize_none(), serialize_unit(), serialize_unit_struct(&'static str), serialize_unit_variant(&'static str, u32, &'static str));
    fn serialize_some<T: ?Sized + Serialize>(self, _: &T) -> Result<(), RecErr> {
        Err(RecErr("unexpected some".into()))
    }
    fn serialize_newtype_struct<T: ?Sized + Serialize>(self, _: &'static str, _: &T) -> Result<(), RecErr> {
        Err(RecErr("unexpected newtype_struct".into()))
    }
    fn serialize_newtype_variant<T: ?Sized + Serialize>(self, _: &'static str, _: u32, _: &'static str, _: &T) -> Result<(), RecErr> {
        Err(RecErr("unexpected newtype_variant".into()))
    }
    fn serialize_seq(self, _: Option<usize>) -> Result<Self::SerializeSeq, RecErr> {
        Err(RecErr("unexpected seq".into()))
    }
    fn serialize_tuple(self, _: usize) -> Result<Self::SerializeTuple, RecErr> {
        Err(RecErr("unexpected tuple".into()))
    }
    fn serialize_tuple_struct(self, _: &'static str, _: usize) -> Result<Self::SerializeTupleStruct, RecErr> {
        Err(RecErr("unexpected tuple_struct".into()))
    }
    fn serialize_tuple_variant(self, _: &'static str, _: u32, _: &'static str, _: usize) -> Result<Self::SerializeTupleVariant, RecErr> {
        Err(RecErr("unexpected tuple_variant".into()))
    }
    fn serialize_map(self, _: Option<usize>) -> Result<Self::SerializeMap, RecErr> {
        Err(RecErr("unexpected map".into()))
    }
    fn serialize_struct(self, name: &'static str, len: usize) -> Result<RecStruct<'a>, RecErr> {
        self.0.push_str(&format!("struct {name} len={len}"));
        Ok(RecStruct(self.0))
    }
    fn serialize_struct_variant(self, _: &'static str, _: u32, _: &'static str, _: usize) -> Result<Self::SerializeStructVariant, RecErr> {
        Err(RecErr("unexpected struct_variant".into()))
    }
}
impl<'a> SerializeStruct for RecStruct<'a> {
    type Ok = ();
    type Error = RecErr;
    fn serialize_field<T: ?Sized + Serialize>(&mut self, key: &'static str, value: &T) -> Result<(), RecErr> {
        self.0.push_str(&format!(";field {key} "));
        value.serialize(F64Only(self.0))
    }
    fn end(self) -> Result<(), RecErr> {
        self.0.push_str(";end");
        Ok(())
    }
}
impl<'a> Serializer for F64Only<'a> {
    type Ok = ();
    type Error = RecErr;
    type SerializeSeq = Impossible<(), RecErr>;
    type SerializeTuple = Impossible<(), RecErr>;
    type SerializeTupleStruct = Impossible<(), RecErr>;
    type SerializeTupleVariant = Impossible<(), RecErr>;
    type SerializeMap = Impossible<(), RecErr>;
    type SerializeStruct = Impossible<(), RecErr>;
    type SerializeStructVariant = Impossible<(), RecErr>;
    unsupported!(serialize_bool(bool), serialize_i8(i8), serialize_i16(i16), serialize_i32(i32), serialize_i64(i64), serialize_u8(u8), serialize_u16(u16), serialize_u32(u32), serialize_u64(u64), serialize_f32(f32), serialize_char(char), serialize_str(&str), serialize_bytes(&[u8]), serialize_none(), serialize_unit(), serialize_unit_struct(&'static str), serialize_unit_variant(&'static str, u32, &'static str));
    fn serialize_f64(self, v: f64) -> Result<(), RecErr> {
        self.0.push_str(&format!("f64:{:016x}", v.to_bits()));
        Ok(())
    }
    fn serialize_some<T: ?Sized + Serialize>(self, _: &T) -> Result<(), RecErr> {
        Err(RecErr("unexpected some".into()))
    }
    fn serialize_newtype_struct<T: ?Sized + Serialize>(self, _: &'static str, _: &T) -> Result<(), RecErr> {
        Err(RecErr("unexpected newtype_struct".into()))
    }
    fn serialize_newtype_variant<T: ?Sized + Serialize>(self, _: &'static str, _: u32, _: &'static str, _: &T) -> Result<(), RecErr> {
        Err(RecErr("unexpected newtype_variant".into()))
    }
    fn serialize_seq(self, _: Option<usize>) -> Result<Self::SerializeSeq, RecErr> {
        Err(RecErr("unexpected seq".into()))
    }
    fn serialize_tuple(self, _: usize) -> Result<Self::SerializeTuple, RecErr> {
        Err(RecErr("unexpected tuple".into()))
    }
    fn serialize_tuple_struct(self, _: &'static str, _: usize) -> Result<Self::SerializeTupleStruct, RecErr> {
        Err(RecErr("unexpected tuple_struct".into()))
    }
    fn serialize_tuple_variant(self, _: &'static str, _: u32, _: &'static str, _: usize) -> Result<Self::SerializeTupleVariant, RecErr> {
        Err(RecErr("unexpected tuple_variant".into()))
    }
    fn serialize_map(self, _: Option<usize>) -> Result<Self::SerializeMap, RecErr> {
        Err(RecErr("unexpected map".into()))
    }
    fn serialize_struct(self, _: &'static str, _: usize) -> Result<Self::SerializeStruct, RecErr> {
        Err(RecErr("unexpected nested struct".into()))
    }
    fn serialize_struct_variant(self, _: &'static str, _: u32, _: &'static str, _: usize) -> Result<Self::SerializeStructVariant, RecErr> {
        Err(RecErr("unexpected struct_variant".into()))
    }
}

fn record_ser(x: &TwoFloat) -> String {
    let mut s = String::new();
    match x.serialize(Rec(&mut s)) {
        Ok(()) => s,
        Err(e) => format!("{s};ERROR {e}"),
    }
}

pub fn c20(c: &mut Ctx) {
    let all_precs: Vec<usize> = (0..=20).chain([40, 100]).collect();
    let n = c.budget(8_000_000, 800_000_000) / 40;
    // deterministic specials
    if c.shard == 0 {
        for a in [(0.0, 0.0), (-0.0, 0.0), (0.0, -0.0), (-0.0, -0.0), (1.0, -0.0), (-1.0, -0.0), (1.0, f64::from_bits(1)), (1.0, -f64::from_bits(1)), (f64::MAX, pow2(969)), (pow2(-1022), 0.0), (pow2(-1022), -0.0), (1e300, -1e280), (1.5e-300, 2e-320)] {
            c20_format(c, a, &all_precs);
            c20_serde(c, a);
        }
        for a in [(f64::NAN, f64::NAN), (f64::INFINITY, f64::INFINITY), (f64::INFINITY, 0.0), (f64::NEG_INFINITY, 0.0), (f64::INFINITY, -0.0), (1.0, f64::NAN), (1.0, f64::INFINITY), (f64::NAN, 0.0), (0.0, f64::NAN), (0.0, f64::INFINITY), (f64::INFINITY, 2.5), (f64::NEG_INFINITY, f64::NEG_INFINITY), (f64::INFINITY, f64::NEG_INFINITY), (1.0, 1.0), (1.0, 0.25), (0.0, 1.0), (0.0, f64::from_bits(1)), (f64::from_bits(3), f64::from_bits(1))] {
            c20_serde(c, a);
        }
    }
    for i in 0..n {
        let a = match i % 4 {
            0 => tf_in_or_zero(&mut c.rng, -1022, 1023),
            1 => tf_in(&mut c.rng, -30, 30),
            _ => tf_in(&mut c.rng, -400, 400),
        };
        // make negative-zero low words common
        let a = if c.rng.chance(1, 10) { (a.0, -0.0) } else { a };
        let k = c.rng.below(all_precs.len() as u64) as usize;
        let big = if c.rng.chance(1, 64) { pk!(c.rng, [300usize, 1073, 1074, 1075, 1100, 2000]) } else { c.rng.below(21) as usize };
        let precs = [all_precs[k], big];
        c20_format(c, a, &precs);
        c20_serde(c, a);
        // pairs that are not valid: overlapping (incl. tie next to odd, one unit past the threshold), non-finite
        let hi = f64_any(&mut c.rng);
        let lo = if hi.is_finite() && hi != 0.0 {
            let cls = c.rng.below(N_LO_CLASSES);
            match c.rng.below(4) {
                0 => lo_class(&mut c.rng, hi, cls),
                1 => {
                    let base = pow2((ulp_exp(hi) - 1 + c.rng.range(-1, 1)).clamp(-1074, 1023));
                    let v = step(base, c.rng.range(-2, 2));
                    if c.rng.coin() {
                        v
                    } else {
                        -v
                    }
                }
                2 => f64_any(&mut c.rng),
                _ => hi * pow2(-c.rng.range(0, 56)),
            }
        } else {
            f64_any(&mut c.rng)
        };
        c20_serde(c, (hi, lo));
        if !valid_ref(hi, lo) {
            c.count("invalid_pairs_presented");
        }
    }
}
