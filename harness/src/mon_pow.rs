//! C13: sqrt / cbrt / hypot judged exactly by squaring / cubing; powi's in-process sub-claims.
//! (powi accuracy is judged offline by the mp checker from `emit_c13`.)

use crate::ctx::{guard, hx, Ctx};
use crate::emit::Emit;
use crate::exact::{valid_ref, Dy};
use crate::gen::*;
use crate::mon_arith::{dy, finite, outs, t, w, W};
use num_traits::Pow;
use serde_json::json;
use twofloat::TwoFloat;

/// lo <= r^k * 2^(k*q) <= hi  with lo = (2^q - p)^k * x, hi = (2^q + p)^k * x   (x, r >= 0)
fn root_ok(r: &Dy, x: &Dy, k: u32, p: u64, q: i64) -> (bool, f64) {
    let mut rk = r.clone();
    for _ in 1..k {
        rk = rk.mul(r);
    }
    let a = Dy::pow2(q).sub(&Dy::from_u128(p as u128));
    let b = Dy::pow2(q).add(&Dy::from_u128(p as u128));
    let (mut ak, mut bk) = (a.clone(), b.clone());
    for _ in 1..k {
        ak = ak.mul(&a);
        bk = bk.mul(&b);
    }
    let mid = rk.mul_pow2(q * k as i64);
    let ok = ak.mul(x).le(&mid) && mid.le(&bk.mul(x));
    // err/bound ~ |r^k - x| / (k * eps * x)
    let num = rk.sub(x).abs().mul_pow2(q);
    let den = x.mul_u64(p).mul_u64(k as u64);
    (ok, if num.is_zero() { 0.0 } else { num.ratio_f64(&den) })
}

pub fn c13_sqrt(c: &mut Ctx, a: W) -> f64 {
    let mut out_ratio = 0.0f64;
    let ins = [hx(a.0), hx(a.1)];
    let x = dy(a);
    c.note("sqrt", &ins, a.0 > 0.0);
    match guard(|| w(t(a).sqrt())) {
        Err(m) => c.viol("sqrt", "panic", &ins, &[], m),
        Ok(r) => {
            if x.sign() < 0 {
                if valid_ref(r.0, r.1) {
                    c.viol("sqrt", "negative_valid", &ins, &outs(r), "sqrt of a negative value must be invalid".into());
                }
            } else if x.is_zero() {
                if !(finite(r) && dy(r).is_zero()) {
                    c.viol("sqrt", "zero", &ins, &outs(r), "sqrt(0) must be exactly 0".into());
                }
            } else if !finite(r) || dy(r).sign() <= 0 {
                c.viol("sqrt", "nonfinite", &ins, &outs(r), "non-finite or non-positive result".into());
            } else {
                let (ok, ratio) = root_ok(&dy(r), &x, 2, 32, 106);
                if !ok {
                    c.viol("sqrt", "accuracy", &ins, &outs(r), format!("relative error exceeds 32*2^-106: err/bound = {ratio:.4e}"));
                }
                c.ratio("sqrt", "32u^2", ratio, &ins);
                out_ratio = ratio;
                c.sample("sqrt", || json!({"x": [a.0, a.1], "r": [r.0, r.1], "err_over_bound": ratio}));
            }
        }
    }
    out_ratio
}

pub fn c13_cbrt(c: &mut Ctx, a: W) {
    let ins = [hx(a.0), hx(a.1)];
    let x = dy(a);
    c.note("cbrt", &ins, a.0 != 0.0);
    match guard(|| w(t(a).cbrt())) {
        Err(m) => c.viol("cbrt", "panic", &ins, &[], m),
        Ok(r) => {
            if x.is_zero() {
                if !(finite(r) && dy(r).is_zero()) {
                    c.viol("cbrt", "zero", &ins, &outs(r), "cbrt(0) must be exactly 0".into());
                }
            } else if !finite(r) || dy(r).sign() != x.sign() {
                c.viol("cbrt", "nonfinite", &ins, &outs(r), "non-finite result or wrong sign".into());
            } else {
                let (ok, ratio) = root_ok(&dy(r).abs(), &x.abs(), 3, 16, 106);
                if !ok {
                    c.viol("cbrt", "accuracy", &ins, &outs(r), format!("relative error exceeds 16*2^-106: err/bound = {ratio:.4e}"));
                }
                c.ratio("cbrt", "16u^2", ratio, &ins);
                c.sample("cbrt", || json!({"x": [a.0, a.1], "r": [r.0, r.1], "err_over_bound": ratio}));
            }
        }
    }
}

pub fn c13_hypot(c: &mut Ctx, a: W, b: W) {
    let ins = [hx(a.0), hx(a.1), hx(b.0), hx(b.1)];
    let s = dy(a).mul(&dy(a)).add(&dy(b).mul(&dy(b)));
    c.note("hypot", &ins, true);
    match guard(|| w(t(a).hypot(t(b)))) {
        Err(m) => c.viol("hypot", "panic", &ins, &[], m),
        Ok(r) => {
            if !finite(r) || dy(r).sign() <= 0 {
                c.viol("hypot", "nonfinite", &ins, &outs(r), "non-finite or non-positive result".into());
            } else {
                let (ok, ratio) = root_ok(&dy(r), &s, 2, 48, 106);
                if !ok {
                    c.viol("hypot", "accuracy", &ins, &outs(r), format!("relative error exceeds 48*2^-106: err/bound = {ratio:.4e}"));
                }
                c.ratio("hypot", "48u^2", ratio, &ins);
            }
        }
    }
}

fn beq(a: W, b: W) -> bool {
    let n = |x: f64| if x.is_nan() { 0x7ff8_0000_0000_0000 } else { x.to_bits() };
    n(a.0) == n(b.0) && n(a.1) == n(b.1)
}

/// powi sub-claims that need no reference value.
pub fn c13_powi(c: &mut Ctx, a: W, n: i32) {
    let ins = [hx(a.0), hx(a.1), n as i64 as u64];
    let ta = t(a);
    c.note("powi", &ins, n != 0 && n != 1);
    let r = match guard(|| w(ta.powi(n))) {
        Err(m) => {
            c.panics += 1;
            c.viol("powi", "panic", &ins, &[], m);
            return;
        }
        Ok(r) => r,
    };
    let zero = a.0 == 0.0 && a.1 == 0.0;
    if n == 0 {
        if zero {
            if valid_ref(r.0, r.1) {
                c.viol("powi", "zero_pow_zero", &ins, &outs(r), "0^0 must be NaN/invalid".into());
            }
        } else if !(r.0 == 1.0 && r.1 == 0.0) {
            c.viol("powi", "pow_zero", &ins, &outs(r), "x^0 must be 1".into());
        }
    }
    if n == 1 && !beq(r, a) {
        c.viol("powi", "pow_one", &ins, &outs(r), "x^1 must be x bit-for-bit".into());
    }
    // sign: result sign = sign(x)^n when the result is finite and non-zero
    if !zero && finite(r) && r.0 != 0.0 {
        let neg_expected = a.0 < 0.0 && (n & 1) != 0;
        if (r.0 < 0.0) != neg_expected {
            c.viol("powi", "sign", &ins, &outs(r), "wrong sign for a negative base".into());
        }
    }
    // powi(x, -n) == powi(x, n).recip() bit for bit, 0 < n <= i32::MAX
    if n > 0 {
        match guard(|| (w(ta.powi(-n)), w(ta.powi(n).recip()))) {
            Ok((p, q)) if beq(p, q) => {}
            Ok((p, q)) => c.viol("powi", "neg_vs_recip", &ins, &[hx(p.0), hx(p.1), hx(q.0), hx(q.1)], "powi(x,-n) differs from powi(x,n).recip()".into()),
            Err(m) => c.viol("powi", "panic", &ins, &[], m),
        }
    }
    // Pow<int> impls agree with powi
    let small = n.clamp(-128, 127);
    match guard(|| {
        (
            w(Pow::pow(ta, n)),
            w(Pow::pow(&ta, &n)),
            w(Pow::pow(ta, small as i8)),
            w(ta.powi(small)),
            w(Pow::pow(ta, (n.clamp(-32768, 32767)) as i16)),
            w(ta.powi(n.clamp(-32768, 32767))),
            w(Pow::pow(ta, (n.unsigned_abs().min(255)) as u8)),
            w(ta.powi(n.unsigned_abs().min(255) as i32)),
            w(Pow::pow(ta, (n.unsigned_abs().min(65535)) as u16)),
            w(ta.powi(n.unsigned_abs().min(65535) as i32)),
        )
    }) {
        Err(m) => c.viol("pow_int", "panic", &ins, &[], m),
        Ok((p32, p32r, p8, q8, p16, q16, pu8, qu8, pu16, qu16)) => {
            if !(beq(p32, r) && beq(p32r, r) && beq(p8, q8) && beq(p16, q16) && beq(pu8, qu8) && beq(pu16, qu16)) {
                c.viol("pow_int", "differs", &ins, &outs(p32), "a Pow<int> impl differs from powi".into());
            }
        }
    }
}

fn c13_x(r: &mut Rng, positive: bool) -> W {
    let a = match r.below(8) {
        0 => {
            // perfect square / cube of a small TwoFloat +- one low-word ulp
            let b = tf_in(r, -40, 40);
            let s = w(t(b) * t(b));
            let s = if r.coin() { w(t(s) * t(b)) } else { s };
            (s.0, step(s.1, r.range(-1, 1)))
        }
        1 => tf_in(r, -900, -880),
        2 => tf_in(r, 880, 900),
        3 => tf_in(r, -2, 2),
        _ => tf_in(r, -900, 900),
    };
    let a = if valid_ref(a.0, a.1) { a } else { (a.0, 0.0) };
    if positive && a.0 < 0.0 {
        (-a.0, -a.1)
    } else {
        a
    }
}

pub fn c13(c: &mut Ctx) {
    // the num_traits::Float routes of the roots, judged by the same exact oracle (reported under the same op)
    c.extra.insert("float_trait_routes_judged".into(), json!(true));
    let ns = c.budget(24_000_000, 2_400_000_000);
    crate::mon_fn::panic_sweep(c, "roots/panic_sweep", &[|x| x.sqrt(), |x| x.cbrt()], &[(0.0, 4.0), (1.0, 1024.0), (0.0, 1.0e6)], -900, 899, true, ns / 2);
    let n = c.budget(4_000_000, 400_000_000) / 4;
    let mut pool: Vec<(f64, W)> = Vec::new();
    for z in [(0.0, 0.0), (-0.0, 0.0), (0.0, -0.0), (-0.0, -0.0)] {
        c13_sqrt(c, z);
        c13_cbrt(c, z);
        for n in [0, 1, -1, 2, -2, i32::MIN, i32::MAX, 7] {
            c13_powi(c, z, n);
        }
    }
    for i in 0..n {
        let a = c13_x(&mut c.rng, true);
        let rr = c13_sqrt(c, a);
        if pool.len() < 32 {
            pool.push((rr, a));
        } else {
            let (mi, mv) = pool.iter().enumerate().fold((0, f64::INFINITY), |acc, (i, e)| if e.0 < acc.1 { (i, e.0) } else { acc });
            if rr > mv {
                pool[mi] = (rr, a);
            }
        }
        if i % 2 == 0 && !pool.is_empty() {
            // hill-climb on the sqrt error (same mantissa window, other exponents / low words)
            let k = c.rng.below(pool.len() as u64) as usize;
            let (_, b0) = pool[k];
            let b1 = match c.rng.below(3) {
                0 => {
                    let sc = pow2(2 * c.rng.range(-200, 200));
                    (b0.0 * sc, b0.1 * sc)
                }
                _ => tf_mutate(&mut c.rng, b0, -900, 899),
            };
            if valid_ref(b1.0, b1.1) && b1.0 > 0.0 && exp_of(b1.0).abs() < 900 {
                let r2 = c13_sqrt(c, b1);
                let (mi, mv) = pool.iter().enumerate().fold((0, f64::INFINITY), |acc, (i, e)| if e.0 < acc.1 { (i, e.0) } else { acc });
                if r2 > mv {
                    pool[mi] = (r2, b1);
                }
            }
        }
        if i % 16 == 0 {
            c13_sqrt(c, (-a.0, -a.1));
        }
        let b = c13_x(&mut c.rng, false);
        c13_cbrt(c, b);
        // hypot: equal, very different, 3-4-5-like
        let x = tf_in(&mut c.rng, -400, 400);
        let y = match c.rng.below(6) {
            0 => x,
            1 => {
                let e = (exp_of(x.0) + c.rng.range(-60, 60)).clamp(-400, 400);
                tf_in(&mut c.rng, e, e)
            }
            2 => {
                let k = pk!(c.rng, [0.75, 4.0 / 3.0, 2.4, 5.0 / 12.0]);
                let y = w(t(x) * k);
                if valid_ref(y.0, y.1) && exp_of(y.0).abs() <= 400 {
                    y
                } else {
                    x
                }
            }
            3 => {
                let e = (exp_of(x.0) + c.rng.range(-110, -95)).clamp(-400, 400);
                tf_in(&mut c.rng, e, e)
            }
            _ => tf_in(&mut c.rng, -400, 400),
        };
        c13_hypot(c, x, y);
        // powi in-process claims: n log-uniform with the special exponents always present
        let nn = match i % 16 {
            0 => i32::MIN,
            1 => i32::MAX,
            2 => 1,
            3 => -1,
            4 => 0,
            5 => i32::MIN + 1,
            _ => {
                let b = c.rng.below(31);
                let m = ((c.rng.next() >> 33) as i32 >> (30 - b as i32).max(0)).max(1);
                if c.rng.coin() {
                    m
                } else {
                    -m
                }
            }
        };
        // base close to 1 so that huge exponents stay finite, or generic
        let base = if nn.unsigned_abs() > 64 || c.rng.coin() {
            let l = c.rng.range(-850, 850) as f64 / (nn.unsigned_abs().max(1) as f64);
            // 2^l ~ 1 + l*ln2 for small l: use a crude series (workload only)
            let x = 1.0 + l * 0.6931471805599453 + 0.5 * (l * 0.6931471805599453) * (l * 0.6931471805599453);
            let h = if x.is_finite() && x > 0.0 && x < 8.0 { x } else { 1.5 };
            let h = if c.rng.coin() { h } else { -h };
            let (h, l2, _) = tf_with_hi(&mut c.rng, h);
            (h, l2)
        } else {
            tf_in(&mut c.rng, -20, 20)
        };
        c13_powi(c, base, nn);
        // exact power-of-two bases (and their neighbours) with extreme exponents
        if i % 8 == 0 {
            let k = pk!(c.rng, [-1i64, 1, 2, -2, 3, -64, 64, 10, -10, 500, -500, 0]);
            let b = pow2(k) * if c.rng.coin() { 1.0 } else { -1.0 };
            let lo = if c.rng.chance(1, 4) { pow2((k - 60).max(-1074)) } else { 0.0 };
            let e = pk!(c.rng, [i32::MIN, i32::MAX, 1 << 30, -(1 << 30), 1 << 20, -(1 << 20), 1023, -1074, 65536, i32::MIN + 1]);
            c13_powi(c, (b, lo), e);
            c.count("powi_pow2_base_extreme_exponent");
        }
    }
}

/// powi accuracy events for the mp checker.
pub fn emit_c13(e: &mut Emit) {
    // differential triage of powi against the frozen reference copy (see mon_fn.rs)
    {
        let nt = e.budget(2_000_000, 200_000_000);
        let mut found = 0u64;
        for _ in 0..nt {
            let nn = match e.rng.below(4) {
                0 => e.rng.range(-64, 64) as i32,
                1 => e.rng.range(-70000, 70000) as i32,
                _ => {
                    let b = e.rng.below(31);
                    let m = (((e.rng.next() >> 33) as i32) >> (30 - b as i32).max(0)).max(2);
                    if e.rng.coin() { m } else { -m }
                }
            };
            let lim = (880 / (nn.unsigned_abs().max(1) as i64)).max(1);
            let a = if lim >= 2 { tf_in(&mut e.rng, -lim, lim - 1) } else {
                let k = e.rng.range(20, 52);
                let h = 1.0 + pow2(-k) * (e.rng.range(-64, 64) as f64);
                let sg = e.rng.coin();
                let (h, l, _) = tf_with_hi(&mut e.rng, if sg { h } else { -h });
                (h, l)
            };
            let r1 = guard(|| t(a).powi(nn));
            let r2 = guard(|| twofloat_ref::verif_hooks::from_raw(a.0, a.1).powi(nn));
            let same = match (&r1, &r2) {
                (Ok(x), Ok(y)) => (x.hi().to_bits() == y.hi().to_bits() || (x.hi().is_nan() && y.hi().is_nan())) && (x.lo().to_bits() == y.lo().to_bits() || (x.lo().is_nan() && y.lo().is_nan())),
                (Err(_), Err(_)) => true,
                _ => false,
            };
            e.triaged += 1;
            if !same && found < 5_000 {
                found += 1;
                e.triage_diffs += 1;
                e.ev("powi", &[hx(a.0), hx(a.1), nn as i64 as u64], || {
                    let r = t(a).powi(nn);
                    vec![r.hi(), r.lo()]
                });
            }
        }
    }
    let n = e.budget(300_000, 30_000_000);
    for i in 0..n {
        let b = e.rng.below(31);
        let mut nn = (((e.rng.next() >> 33) as i32) >> (30 - b as i32).max(0)).max(2);
        if i % 64 == 0 {
            nn = i32::MAX;
        }
        let neg = e.rng.coin();
        let nn = if neg { -nn } else { nn };
        let nn = if i % 64 == 1 { i32::MIN + 1 } else { nn };
        // x = 2^(L/n) * (1 + eps): choose the result exponent L first so that |x|^|n| stays in [2^-900, 2^900]
        let an = nn.unsigned_abs() as f64;
        let l = e.rng.range(-880, 880) as f64;
        let y = l / an; // log2 |x|
        let yi = if y >= 0.0 { (y as i64) as f64 } else { -(((-y) as i64) as f64) - 1.0 };
        let yf = y - yi; // in [0,1)
        // 2^yf by a short series (workload only; the oracle recomputes everything from the words)
        let z = yf * 0.6931471805599453;
        let p = 1.0 + z * (1.0 + z * (0.5 + z * (1.0 / 6.0 + z * (1.0 / 24.0 + z * (1.0 / 120.0 + z / 720.0)))));
        let ei = yi as i64;
        if !(-900..=900).contains(&ei) {
            continue;
        }
        let mut h = p * pow2(ei);
        if e.rng.coin() {
            h = -h;
        }
        let (h, lo, _) = tf_with_hi(&mut e.rng, h);
        let a = (h, lo);
        if !valid_ref(a.0, a.1) || a.0 == 0.0 {
            continue;
        }
        e.ev("powi", &[hx(a.0), hx(a.1), nn as i64 as u64], || {
            let r = t(a).powi(nn);
            vec![r.hi(), r.lo()]
        });
    }
    // small exponents with generic bases
    for _ in 0..n / 2 {
        let nn = e.rng.range(-40, 40) as i32;
        let lim = 880 / (nn.unsigned_abs().max(1) as i64);
        let a = tf_in(&mut e.rng, -lim, lim - 1);
        e.ev("powi", &[hx(a.0), hx(a.1), nn as i64 as u64], || {
            let r = t(a).powi(nn);
            vec![r.hi(), r.lo()]
        });
    }
}
