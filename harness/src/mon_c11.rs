//! C11: results do not depend on the std / no_std configuration.
//!  * `c11` (run mode, in every configuration): the crate-private fma, reached through the
//!    verif_hooks feature, is judged against the exactly rounded x*y + z.
//!  * `stream`: a deterministic workload whose block hashes / event logs are diffed by the driver
//!    between the std, no_std (hardware libm), no_std (software libm) builds and a Miri replay.
//! The workload generator uses integer/bit operations and IEEE + - * / only.

use crate::ctx::{guard, hx, Ctx};
use crate::exact::{valid_ref, Dy};
use crate::gen::*;
use crate::mon_arith::{t, w, W};
use crate::mon_c01::{bin, f_in_range, in_range, mix as mixop, un, un_operand, BIN_NAMES, MIX_NAMES, N_BIN, N_MIX, N_UN, UN_NAMES};
use serde_json::json;
use std::io::Write;
use twofloat::verif_hooks::fma;
use twofloat::TwoFloat;

fn fma_case(c: &mut Ctx, x: f64, y: f64, z: f64) {
    let ins = [hx(x), hx(y), hx(z)];
    c.note("fma", &ins, x != 0.0 && y != 0.0 && z != 0.0);
    let want = Dy::from_f64(x).mul(&Dy::from_f64(y)).add(&Dy::from_f64(z)).to_f64_rn();
    match guard(|| fma(x, y, z)) {
        Err(m) => c.viol("fma", "panic", &ins, &[], m),
        Ok(r) => {
            // value equality (either zero sign; overflow to infinity must agree)
            let ok = (r == want) || (r.is_infinite() && want.is_infinite() && r.signum() == want.signum());
            if !ok {
                c.viol("fma", "not_correctly_rounded", &ins, &[hx(r), hx(want)], format!("internal fma returned {r:e}, correctly rounded x*y+z is {want:e}"));
            }
            c.sample("fma", || json!({"x": x, "y": y, "z": z, "fma": r}));
        }
    }
}

pub fn c11(c: &mut Ctx) {
    let n = c.budget(2_000_000, 200_000_000);
    for i in 0..n {
        let x = f64_in(&mut c.rng, -500, 500);
        let y = f64_in(&mut c.rng, -500, 500);
        let p = x * y;
        let z = match i % 8 {
            0 => -p,                                         // the error-free product pattern
            1 => -step(p, c.rng.range(-3, 3)),               // massive cancellation
            2 => {
                // halfway cases: z = half an ulp of the product, either sign
                let e = (ulp_exp(p) - 1).clamp(-1074, 1023);
                pow2(e) * if c.rng.coin() { 1.0 } else { -1.0 }
            }
            3 => f64_in(&mut c.rng, (exp_of(p) - 60).clamp(-1022, 1023), (exp_of(p) + 60).clamp(-1022, 1023)),
            4 => 0.0,
            5 => f64_finite(&mut c.rng),
            _ => f64_in(&mut c.rng, (exp_of(p) - 110).clamp(-1022, 1023), (exp_of(p) + 3).clamp(-1022, 1023)),
        };
        if z.is_finite() {
            fma_case(c, x, y, z);
        }
        if i % 4 == 0 {
            // results on both sides of the subnormal boundary and of overflow
            let ex = c.rng.range(-1074, -1000);
            let a = f64_in(&mut c.rng, -600, -400);
            let b = mk(c.rng.coin(), (ex - exp_of(a)).clamp(-1022, 1023), mant_any(&mut c.rng));
            let zz = match c.rng.below(3) {
                0 => -(a * b),
                1 => f64::from_bits(c.rng.below(1 << 20)),
                _ => pow2(c.rng.range(-1074, -1020)),
            };
            fma_case(c, a, b, zz);
            let a = f64_in(&mut c.rng, 500, 520);
            let b = mk(c.rng.coin(), (1022 - exp_of(a)).clamp(-1022, 1023) + c.rng.range(-1, 1), mant_any(&mut c.rng));
            let zz = mk(c.rng.coin(), c.rng.range(960, 1023), mant_any(&mut c.rng));
            fma_case(c, a, b, zz);
            // subnormal operands
            let s = f64::from_bits(c.rng.next() & MANT_MASK);
            let y2 = f64_in(&mut c.rng, 0, 60);
            let z2 = f64::from_bits(c.rng.next() & MANT_MASK);
            fma_case(c, s, y2, z2);
        }
    }
}

fn canon(x: f64) -> u64 {
    if x.is_nan() {
        0x7ff8_0000_0000_0000
    } else {
        x.to_bits()
    }
}

/// One deterministic event: returns (op name, input words, output words).
fn event(r: &mut Rng, pool: &mut Vec<W>) -> (&'static str, Vec<u64>, Vec<u64>) {
    let pick = |r: &mut Rng, pool: &Vec<W>| -> W {
        if r.chance(1, 40) {
            // non-finite operands reachable through the API, and zeros of every sign pattern
            return pk!(r, [(f64::INFINITY, f64::INFINITY), (f64::NEG_INFINITY, f64::NEG_INFINITY), (f64::INFINITY, 0.0), (f64::NEG_INFINITY, 0.0), (f64::INFINITY, f64::NEG_INFINITY), (f64::NAN, f64::NAN), (0.0, 0.0), (-0.0, 0.0), (0.0, -0.0), (-0.0, -0.0)]);
        }
        if r.chance(1, 30) {
            return crate::pools::published_const(r);
        }
        if !pool.is_empty() && r.chance(1, 3) {
            pool[r.below(pool.len() as u64) as usize]
        } else {
            tf_in(r, -300, 300)
        }
    };
    let kind = r.below(17);
    let (name, ins, res): (&'static str, Vec<u64>, Result<Vec<W>, String>) = match kind {
        0..=5 => {
            let i = r.below(N_UN);
            let a = if r.coin() { un_operand(r, i) } else { pick(r, pool) };
            let a = if r.chance(1, 50) { crate::pools::round_integer(r) } else { a };
            (UN_NAMES[i as usize], vec![hx(a.0), hx(a.1)], guard(|| {
                let (x, y) = un(i, t(a));
                let mut v = vec![w(x)];
                if let Some(y) = y {
                    v.push(w(y));
                }
                v
            }))
        }
        6..=10 => {
            let i = r.below(N_BIN);
            let a = if r.chance(1, 8) { if r.coin() { tf_in(r, -1022, -960) } else { tf_in(r, 960, 1023) } } else { pick(r, pool) };
            let b = if r.chance(1, 8) { tf_in(r, -60, 60) } else if r.coin() { tf_related(r, a, -300, 300, 3 + (i % 7)) } else { pick(r, pool) };
            let (a, b) = if (15..=18).contains(&i) { if r.chance(1, 6) { (tf_in(r, -700, 700), tf_in(r, -700, 700)) } else { (tf_in(r, -20, 20), tf_in(r, -6, 6)) } } else { (a, b) };
            (BIN_NAMES[i as usize], vec![hx(a.0), hx(a.1), hx(b.0), hx(b.1)], guard(|| vec![w(bin(i, t(a), t(b)))]))
        }
        11 | 12 => {
            let i = r.below(N_MIX);
            // a quarter of the mixed events sit at the edges of the exponent range with power-of-two
            // or simple scalars: results that land next to the subnormal boundary / overflow
            let (a, f) = if r.chance(1, 4) {
                let a = if r.coin() { tf_in(r, -1022, -990) } else { tf_in(r, 990, 1023) };
                let f = match r.below(3) {
                    0 => pow2(r.range(-40, 40)),
                    1 => -pow2(r.range(-40, 40)),
                    _ => f64_in(r, -40, 40),
                };
                (a, f)
            } else {
                let a = pick(r, pool);
                let f = f64_related(r, a, -300, 300);
                (a, f)
            };
            (MIX_NAMES[i as usize], vec![hx(a.0), hx(a.1), hx(f)], guard(|| vec![w(mixop(i, t(a), f))]))
        }
        13 => {
            let a = tf_in(r, -10, 10);
            let n = r.range(-60, 60) as i32;
            ("powi", vec![hx(a.0), hx(a.1), n as i64 as u64], guard(|| vec![w(t(a).powi(n))]))
        }
        14 => {
            // constructors, including products / quotients whose error term is tiny or subnormal
            let x = if r.chance(1, 4) { f64_in(r, -540, -440) } else { f64_in(r, -300, 300) };
            let y = if r.chance(1, 4) { f64_in(r, -540, -440) } else { f64_related(r, (x, 0.0), -300, 300) };
            let i = r.below(4);
            let nm = ["new_add", "new_sub", "new_mul", "new_div"][i as usize];
            (nm, vec![hx(x), hx(y)], guard(|| {
                vec![w(match i {
                    0 => TwoFloat::new_add(x, y),
                    1 => TwoFloat::new_sub(x, y),
                    2 => TwoFloat::new_mul(x, y),
                    _ => TwoFloat::new_div(x, y),
                })]
            }))
        }
        16 => {
            // Iterator::sum over 0..400 items (TwoFloat or f64 items)
            let len = if r.coin() { r.range(0, 12) } else { r.range(100, 400) } as usize;
            let items: Vec<W> = (0..len).map(|_| tf_in(r, -40, 40)).collect();
            let mut ins = vec![len as u64];
            for x in items.iter().take(4) {
                ins.push(hx(x.0));
                ins.push(hx(x.1));
            }
            let byf = r.coin();
            ("sum", ins, guard(|| {
                if byf {
                    vec![w(items.iter().map(|x| x.0).sum::<TwoFloat>())]
                } else {
                    vec![w(items.iter().map(|x| t(*x)).sum::<TwoFloat>())]
                }
            }))
        }
        _ => {
            let x = f64_in(r, -300, 300);
            let y = f64_in(r, -300, 300);
            let z = -(x * y);
            ("fma_hook", vec![hx(x), hx(y), hx(z)], guard(|| vec![(fma(x, y, z), 0.0)]))
        }
    };
    let outs: Vec<u64> = match &res {
        Ok(v) => v.iter().flat_map(|x| [canon(x.0), canon(x.1)]).collect(),
        Err(_) => vec![0xdead_dead_dead_dead],
    };
    if let Ok(v) = &res {
        for x in v {
            if in_range(*x) && x.0 != 0.0 && exp_of(x.0).abs() < 300 && valid_ref(x.0, x.1) {
                if pool.len() < 16 {
                    pool.push(*x);
                } else {
                    let k = r.below(16) as usize;
                    pool[k] = *x;
                }
            }
        }
    }
    let _ = f_in_range(0.0);
    (name, ins, outs)
}

/// `tfmon stream C11 --seed S --shard I --nshards N --events E [--log A B]`
pub fn stream(seed: u64, shard: u64, events: u64, log: Option<(u64, u64)>) {
    let mut out = std::io::BufWriter::new(std::io::stdout());
    let mut r = Rng::new(seed, 0xC11, shard);
    let mut pool: Vec<W> = Vec::new();
    let mut h = 0u64;
    for e in 0..events {
        let (name, ins, outs) = event(&mut r, &mut pool);
        for x in ins.iter().chain(outs.iter()) {
            h = mix(h ^ *x);
        }
        let block = e / 1024;
        if let Some((a, b)) = log {
            if block >= a && block <= b {
                let _ = write!(out, "V {e} {name}");
                for x in &ins {
                    let _ = write!(out, " {x:016x}");
                }
                let _ = write!(out, " ->");
                for x in &outs {
                    let _ = write!(out, " {x:016x}");
                }
                let _ = writeln!(out);
            }
        }
        if (e + 1) % 1024 == 0 || e + 1 == events {
            let _ = writeln!(out, "B {block} {h:016x}");
            h = 0;
        }
    }
    let _ = writeln!(out, "END {events} {}", crate::cfg_name());
    let _ = out.flush();
}
